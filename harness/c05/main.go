// C05: generated .proto text re-parses to the descriptor it was printed from.
package main

import (
	"context"
	"encoding/hex"
	"fmt"
	"io/fs"
	"os"
	"path/filepath"
	"sort"
	"strings"

	"github.com/pentops/j5/internal/zzverif/gj5s"
	"github.com/pentops/j5/internal/zzverif/vk"
	"google.golang.org/protobuf/proto"
	"google.golang.org/protobuf/reflect/protodesc"
	"google.golang.org/protobuf/reflect/protoreflect"
	"google.golang.org/protobuf/reflect/protoregistry"
	"google.golang.org/protobuf/types/descriptorpb"
	"google.golang.org/protobuf/types/dynamicpb"
)

var ctx = context.Background()

func main() {
	gj5s.Silence()
	vk.Main(&vk.Check{
		ID:   "C05",
		Rule: "files: every file compiled from every program of the j5s families (single-field matrix, numbering, nesting, enums, references, services, topics, entities, rule matrix, annotations / descriptions, self-references and name-collision shapes); every hand-written .proto under /repo/proto parsed with protocompile; a raw-descriptor family with a private options file whose extension fields cover strings needing each escape, nested messages, repeated scalars and messages, maps, enums and numeric boundaries on every option host (message, field, oneof, enum, enum value, service, method). A case = one bundle of files printed together; distinct by printed text; non-trivial = every case",
		Assumptions: []string{
			"equivalence is an explicit order-insensitive dump of both descriptors (package, imports, messages and nesting, fields, enums, services, options re-serialised through one resolver, leading comments); declaration order is not compared",
			"imports of the printed text resolve from the other printed files of the bundle, then from the process-wide registry (the compiler's builtin files)",
		},
		Isolate:        true,
		QuickBudget:    900,
		ThoroughBudget: 3600,
		Run:            run,
	})
}

// ---------- order-insensitive descriptor dump ----------

type dumper struct {
	types *dynamicpb.Types
}

func (d *dumper) opts(m proto.Message) string {
	if m == nil || !m.ProtoReflect().IsValid() {
		return ""
	}
	b, err := proto.Marshal(m)
	if err != nil || len(b) == 0 {
		return ""
	}
	typed := m.ProtoReflect().New().Interface()
	if err := (proto.UnmarshalOptions{Resolver: resolver{d.types}}).Unmarshal(b, typed); err != nil {
		return "unparseable:" + hex.EncodeToString(b)
	}
	// features and uninterpreted leftovers are not part of the contract
	out, _ := proto.MarshalOptions{Deterministic: true}.Marshal(typed)
	return canonOptions(typed.ProtoReflect()) + "#" + fmt.Sprint(len(out))
}

// canonOptions renders an options message field by field (sorted), so that
// map order and unknown-field order cannot matter.
func canonOptions(m protoreflect.Message) string {
	var parts []string
	m.Range(func(fd protoreflect.FieldDescriptor, v protoreflect.Value) bool {
		parts = append(parts, string(fd.FullName())+"="+canonValue(fd, v))
		return true
	})
	sort.Strings(parts)
	if u := m.GetUnknown(); len(u) > 0 {
		parts = append(parts, "unknown="+hex.EncodeToString(u))
	}
	return "{" + strings.Join(parts, ";") + "}"
}

func canonValue(fd protoreflect.FieldDescriptor, v protoreflect.Value) string {
	switch {
	case fd.IsMap():
		var ps []string
		v.Map().Range(func(k protoreflect.MapKey, mv protoreflect.Value) bool {
			ps = append(ps, fmt.Sprintf("%v:%s", k.Interface(), canonSingle(fd.MapValue(), mv)))
			return true
		})
		sort.Strings(ps)
		return "map[" + strings.Join(ps, ",") + "]"
	case fd.IsList():
		var ps []string
		l := v.List()
		for i := 0; i < l.Len(); i++ {
			ps = append(ps, canonSingle(fd, l.Get(i)))
		}
		return "[" + strings.Join(ps, ",") + "]"
	}
	return canonSingle(fd, v)
}

func canonSingle(fd protoreflect.FieldDescriptor, v protoreflect.Value) string {
	switch fd.Kind() {
	case protoreflect.MessageKind, protoreflect.GroupKind:
		return canonOptions(v.Message())
	case protoreflect.BytesKind:
		return hex.EncodeToString(v.Bytes())
	case protoreflect.StringKind:
		return fmt.Sprintf("%q", v.String())
	}
	return fmt.Sprint(v.Interface())
}

type resolver struct{ types *dynamicpb.Types }

func (r resolver) FindExtensionByName(n protoreflect.FullName) (protoreflect.ExtensionType, error) {
	if xt, err := protoregistry.GlobalTypes.FindExtensionByName(n); err == nil {
		return xt, nil
	}
	return r.types.FindExtensionByName(n)
}
func (r resolver) FindExtensionByNumber(m protoreflect.FullName, n protoreflect.FieldNumber) (protoreflect.ExtensionType, error) {
	if xt, err := protoregistry.GlobalTypes.FindExtensionByNumber(m, n); err == nil {
		return xt, nil
	}
	return r.types.FindExtensionByNumber(m, n)
}
func (r resolver) FindMessageByName(n protoreflect.FullName) (protoreflect.MessageType, error) {
	if mt, err := protoregistry.GlobalTypes.FindMessageByName(n); err == nil {
		return mt, nil
	}
	return r.types.FindMessageByName(n)
}
func (r resolver) FindMessageByURL(u string) (protoreflect.MessageType, error) {
	return protoregistry.GlobalTypes.FindMessageByURL(u)
}

func comment(d protoreflect.Descriptor) string {
	// compared exactly: the property asks for the same leading comments
	return d.ParentFile().SourceLocations().ByDescriptor(d).LeadingComments
}

func (d *dumper) file(fd protoreflect.FileDescriptor) []string {
	var out []string
	add := func(format string, a ...any) { out = append(out, fmt.Sprintf(format, a...)) }
	add("package %s", fd.Package())
	var imps []string
	for i := 0; i < fd.Imports().Len(); i++ {
		imps = append(imps, fd.Imports().Get(i).Path())
	}
	sort.Strings(imps)
	add("imports %v", imps)
	var msgs func(mds protoreflect.MessageDescriptors)
	var enums func(eds protoreflect.EnumDescriptors)
	enums = func(eds protoreflect.EnumDescriptors) {
		for i := 0; i < eds.Len(); i++ {
			e := eds.Get(i)
			add("enum %s opts=%s comment=%q", e.FullName(), d.opts(e.Options()), comment(e))
			for j := 0; j < e.Values().Len(); j++ {
				v := e.Values().Get(j)
				add("enumvalue %s = %d opts=%s comment=%q", v.FullName(), v.Number(), d.opts(v.Options()), comment(v))
			}
		}
	}
	msgs = func(mds protoreflect.MessageDescriptors) {
		for i := 0; i < mds.Len(); i++ {
			m := mds.Get(i)
			if m.IsMapEntry() {
				continue
			}
			add("message %s opts=%s comment=%q", m.FullName(), d.opts(m.Options()), comment(m))
			for j := 0; j < m.Fields().Len(); j++ {
				f := m.Fields().Get(j)
				tn := ""
				switch {
				case f.IsMap():
					v := f.MapValue()
					tn = "map<" + f.MapKey().Kind().String() + "," + v.Kind().String()
					if v.Message() != nil {
						tn += ":" + string(v.Message().FullName())
					}
					if v.Enum() != nil {
						tn += ":" + string(v.Enum().FullName())
					}
					tn += ">"
				case f.Message() != nil:
					tn = string(f.Message().FullName())
				case f.Enum() != nil:
					tn = string(f.Enum().FullName())
				}
				oo := ""
				if o := f.ContainingOneof(); o != nil && !o.IsSynthetic() {
					oo = string(o.Name())
				}
				add("field %s = %d kind=%s type=%s card=%s optional=%v json=%s oneof=%s opts=%s comment=%q", f.FullName(), f.Number(), f.Kind(), tn, f.Cardinality(), f.HasOptionalKeyword(), f.JSONName(), oo, d.opts(f.Options()), comment(f))
			}
			for j := 0; j < m.Oneofs().Len(); j++ {
				o := m.Oneofs().Get(j)
				if !o.IsSynthetic() {
					add("oneof %s opts=%s", o.FullName(), d.opts(o.Options()))
				}
			}
			msgs(m.Messages())
			enums(m.Enums())
		}
	}
	msgs(fd.Messages())
	enums(fd.Enums())
	for i := 0; i < fd.Services().Len(); i++ {
		s := fd.Services().Get(i)
		add("service %s opts=%s comment=%q", s.FullName(), d.opts(s.Options()), comment(s))
		for j := 0; j < s.Methods().Len(); j++ {
			m := s.Methods().Get(j)
			add("method %s(%s) returns (%s) cs=%v ss=%v opts=%s comment=%q", m.FullName(), m.Input().FullName(), m.Output().FullName(), m.IsStreamingClient(), m.IsStreamingServer(), d.opts(m.Options()), comment(m))
		}
	}
	// declaration order within each kind of child (fields of a message, values of an
	// enum, nested messages, nested enums, top-level messages / enums / services, methods)
	names := func(n int, get func(i int) protoreflect.Descriptor) string {
		var l []string
		for i := 0; i < n; i++ {
			if md, ok := get(i).(protoreflect.MessageDescriptor); ok && md.IsMapEntry() {
				continue
			}
			l = append(l, string(get(i).Name()))
		}
		return strings.Join(l, ",")
	}
	var order func(mds protoreflect.MessageDescriptors, eds protoreflect.EnumDescriptors, scope string)
	order = func(mds protoreflect.MessageDescriptors, eds protoreflect.EnumDescriptors, scope string) {
		add("order messages-of %s: %s", scope, names(mds.Len(), func(i int) protoreflect.Descriptor { return mds.Get(i) }))
		add("order enums-of %s: %s", scope, names(eds.Len(), func(i int) protoreflect.Descriptor { return eds.Get(i) }))
		for i := 0; i < eds.Len(); i++ {
			e := eds.Get(i)
			add("order values-of %s: %s", e.FullName(), names(e.Values().Len(), func(i int) protoreflect.Descriptor { return e.Values().Get(i) }))
		}
		for i := 0; i < mds.Len(); i++ {
			m := mds.Get(i)
			if m.IsMapEntry() {
				continue
			}
			add("order fields-of %s: %s", m.FullName(), names(m.Fields().Len(), func(i int) protoreflect.Descriptor { return m.Fields().Get(i) }))
			order(m.Messages(), m.Enums(), string(m.FullName()))
		}
	}
	order(fd.Messages(), fd.Enums(), "file")
	add("order services-of file: %s", names(fd.Services().Len(), func(i int) protoreflect.Descriptor { return fd.Services().Get(i) }))
	for i := 0; i < fd.Services().Len(); i++ {
		sv := fd.Services().Get(i)
		add("order methods-of %s: %s", sv.FullName(), names(sv.Methods().Len(), func(i int) protoreflect.Descriptor { return sv.Methods().Get(i) }))
	}
	sort.Strings(out)
	return out
}

func typesOf(files []protoreflect.FileDescriptor) *dynamicpb.Types {
	reg := &protoregistry.Files{}
	set := &descriptorpb.FileDescriptorSet{}
	seen := map[string]bool{}
	var add func(fd protoreflect.FileDescriptor)
	add = func(fd protoreflect.FileDescriptor) {
		if seen[fd.Path()] {
			return
		}
		seen[fd.Path()] = true
		for i := 0; i < fd.Imports().Len(); i++ {
			add(fd.Imports().Get(i).FileDescriptor)
		}
		set.File = append(set.File, protodesc.ToFileDescriptorProto(fd))
	}
	for _, f := range files {
		add(f)
	}
	if fs, err := protodesc.NewFiles(set); err == nil {
		reg = fs
	}
	return dynamicpb.NewTypes(reg)
}

// checkBundle prints all files of a bundle, re-parses the text and compares.
func checkBundle(t *vk.T, files []protoreflect.FileDescriptor, coord, label string, fallback map[string]string) {
	t.Coord(coord)
	t.SigCoord(coord)
	t.Nontrivial()
	texts := map[string]string{}
	for _, f := range files {
		s, err := gj5s.PrintFD(f)
		t.Step()
		if err != nil {
			t.Violation("print-fails|"+coord+"|"+vk.ErrTail(err), fmt.Sprintf("PrintFile(%s) fails: %v\n%s", f.Path(), err, label), label, nil, err.Error())
			return
		}
		texts[f.Path()] = s
	}
	var key []string
	for _, k := range sortedKeys(texts) {
		key = append(key, texts[k])
	}
	t.Key(strings.Join(key, "\x00"))
	withImports := map[string]string{}
	for k, v := range fallback {
		withImports[k] = v // original sources of the same tree, for imports only
	}
	for k, v := range texts {
		withImports[k] = v
	}
	re, err := gj5s.ReparseNames(withImports, sortedKeys(texts))
	t.Step()
	if err != nil {
		t.Violation("printed-text-does-not-parse|"+coord+"|"+vk.ErrTail(err), fmt.Sprintf("the printed text does not parse / link: %v\n%s\nprinted:\n%s", err, label, joinTexts(texts)), label, nil, err.Error())
		return
	}
	byPath := map[string]protoreflect.FileDescriptor{}
	for _, f := range re {
		byPath[f.Path()] = f
	}
	d := &dumper{types: typesOf(files)}
	for _, f := range files {
		g := byPath[f.Path()]
		if g == nil {
			continue
		}
		a, b := d.file(f), d.file(g)
		if coord == "repo-proto" || coord == "handwritten" {
			// hand-written files may interleave fields, oneofs and nested types in ways the
			// printer regroups; declaration order is compared for compiled j5s only
			a, b = dropOrder(a), dropOrder(b)
		}
		if strings.Join(a, "\n") != strings.Join(b, "\n") {
			diff := firstDiff(a, b)
			t.Violation("descriptor-differs|"+coord+"|"+diffKind(diff), fmt.Sprintf("re-parsing the printed text of %s gives a different descriptor:\n%s\n%s\nprinted:\n%s", f.Path(), diff, label, texts[f.Path()]), label, nil, diff)
			return
		}
		again, err := gj5s.PrintFD(g)
		t.Step()
		if err != nil || again != texts[f.Path()] {
			t.Violation("print-not-stable|"+coord, fmt.Sprintf("printing the re-parsed %s does not reproduce the text (err=%v)\nfirst:\n%s\nsecond:\n%s", f.Path(), err, texts[f.Path()], again), label, texts[f.Path()], again)
			return
		}
	}
	t.Sample(map[string]string{"bundle": label, "printed": firstText(texts)})
}

func dropOrder(in []string) []string {
	var out []string
	for _, l := range in {
		if !strings.HasPrefix(l, "order ") {
			out = append(out, l)
		}
	}
	return out
}

func firstText(m map[string]string) string {
	for _, k := range sortedKeys(m) {
		if len(m[k]) > 60 {
			return m[k]
		}
	}
	return ""
}

func joinTexts(m map[string]string) string {
	s := ""
	for _, k := range sortedKeys(m) {
		s += "--- " + k + "\n" + m[k] + "\n"
	}
	return s
}

func firstDiff(a, b []string) string {
	am, bm := map[string]bool{}, map[string]bool{}
	for _, x := range a {
		am[x] = true
	}
	for _, x := range b {
		bm[x] = true
	}
	var out []string
	for _, x := range a {
		if !bm[x] {
			out = append(out, "  original: "+x)
		}
	}
	for _, x := range b {
		if !am[x] {
			out = append(out, "  reparsed: "+x)
		}
	}
	if len(out) > 6 {
		out = out[:6]
	}
	return strings.Join(out, "\n")
}

func diffKind(diff string) string {
	for _, ln := range strings.Split(diff, "\n") {
		ln = strings.TrimSpace(strings.TrimPrefix(strings.TrimPrefix(strings.TrimSpace(ln), "original:"), "reparsed:"))
		if i := strings.IndexByte(ln, ' '); i > 0 {
			return ln[:i]
		}
	}
	return "?"
}

func sortedKeys[V any](m map[string]V) []string {
	var ks []string
	for k := range m {
		ks = append(ks, k)
	}
	sort.Strings(ks)
	return ks
}

func run(r *vk.Runner) {
	// (a) everything the compiler emits
	var cases []*gj5s.Case
	cases = append(cases, gj5s.AllContractCases(!r.Quick())...)
	cases = append(cases, gj5s.RuleCases()...)
	cases = append(cases, gj5s.AnnotationCases()...)
	cases = append(cases, gj5s.ShapeCases()...)
	cases = append(cases, gj5s.OddNameCases()...)
	for _, c := range cases {
		c := c
		if r.Stopped() {
			return
		}
		r.Family("compiled:" + c.Family)
		r.Do("compiled:"+c.ID, func(t *vk.T) {
			b := c.P.Bundle()
			src := ""
			for _, f := range c.P.Files {
				src += "// " + f.Path() + "\n" + b.Files[f.Path()] + "\n"
			}
			ps, err := b.NewPackageSet()
			if err != nil {
				panic(err)
			}
			var files []protoreflect.FileDescriptor
			seen := map[string]bool{}
			for _, pkg := range b.Packages {
				out, err := ps.CompilePackage(ctx, pkg)
				if err != nil {
					t.Coord("compiled|" + c.Family)
					t.Class("does-not-compile") // C07's business
					return
				}
				for _, f := range out {
					if !seen[f.Path()] {
						seen[f.Path()] = true
						files = append(files, f)
					}
				}
			}
			coord := "compiled|" + c.Family
			if c.Family == "shapes" {
				coord = "compiled|" + c.Coord
			}
			// external dependencies are not printed: their text is only needed to link the re-parsed files
			var depTexts map[string]string
			for _, f := range c.P.Files {
				if f.IsDep {
					if depTexts == nil {
						depTexts = map[string]string{}
					}
					depTexts[f.OutPath()] = f.Render()
				}
			}
			checkBundle(t, files, coord, src, depTexts)
		})
	}

	// (b0) hand-written shapes the repository's own files do not contain
	r.Family("handwritten-shapes")
	for _, hw := range handwritten() {
		hw := hw
		r.Do("handwritten:"+hw.name, func(t *vk.T) {
			t.Coord("handwritten|" + hw.name)
			texts := map[string]string{"hw/v1/t.proto": hw.text}
			fds, err := gj5s.ReparseOne(texts, "hw/v1/t.proto")
			if err != nil {
				panic("harness: hand-written shape " + hw.name + " does not parse: " + err.Error())
			}
			checkBundle(t, fds, "handwritten", hw.name, texts)
		})
	}

	// (b) the repository's hand-written protos
	r.Family("repo-protos")
	roots, _ := os.ReadDir("/repo/proto")
	for _, root := range roots {
		if !root.IsDir() {
			continue
		}
		rootDir := filepath.Join("/repo/proto", root.Name())
		texts := map[string]string{}
		filepath.WalkDir(rootDir, func(p string, d fs.DirEntry, err error) error { //nolint:errcheck
			if err == nil && !d.IsDir() && strings.HasSuffix(p, ".proto") {
				b, _ := os.ReadFile(p)
				rel, _ := filepath.Rel(rootDir, p)
				texts[rel] = string(b)
			}
			return nil
		})
		for _, name := range sortedKeys(texts) {
			name := name
			r.Do("repo:"+root.Name()+"/"+name, func(t *vk.T) {
				t.Coord("repo-proto")
				fds, err := gj5s.ReparseOne(texts, name)
				if err != nil {
					t.Class("source-does-not-parse:" + vk.ErrTail(err))
					return
				}
				checkBundle(t, fds, "repo-proto", "/repo/proto/"+root.Name()+"/"+name, texts)
			})
		}
	}

	// (c) raw descriptors with a private options file
	r.Family("option-values")
	for _, oc := range optionCases() {
		oc := oc
		r.Do("options:"+oc.id, func(t *vk.T) {
			fds, err := oc.build()
			if err != nil {
				panic(fmt.Sprintf("harness: option case %s does not build: %v", oc.id, err))
			}
			checkBundle(t, fds, "option-values|host="+oc.host, oc.id, nil)
		})
	}
}

type hwShape struct{ name, text string }

// handwritten: small proto3 files exercising comment layouts, labels and literal forms.
func handwritten() []hwShape {
	head := "syntax = \"proto3\";\n\npackage hw.v1;\n\n"
	return []hwShape{
		{"comment-trailing-blank-lines", head + "// Foo is a thing\n//\n//\nmessage Foo {\n  // the name\n  //\n  string name = 1;\n}\n"},
		{"comment-leading-blank-lines", head + "//\n//\n// Foo after blanks\nmessage Foo {\n  //\n  // name after a blank\n  string name = 1;\n}\n"},
		{"comment-inner-blank-lines", head + "// first paragraph\n//\n// second paragraph\n//\n//\n// third after two blanks\nmessage Foo {\n  string name = 1;\n}\n"},
		{"comment-only-blank", head + "//\nmessage Foo {\n  //\n  //\n  string name = 1;\n}\n"},
		{"comment-indented-and-wide", head + "//   indented text\n//\ttab text\n// trailing spaces   \nmessage Foo {\n  string name = 1;\n}\n"},
		{"comment-on-enum-values-and-methods", head + "// E doc\n//\nenum E {\n  // zero\n  //\n  E_UNSPECIFIED = 0;\n  // one\n  E_ONE = 1;\n}\n\nmessage Req {}\nmessage Res {}\n\n// S doc\n//\nservice S {\n  // M doc\n  //\n  rpc M(Req) returns (Res);\n}\n"},
		{"optional-on-every-kind", head + "message Sub {}\nenum E {\n  E_UNSPECIFIED = 0;\n}\nmessage Foo {\n  optional string a = 1;\n  optional Sub b = 2;\n  optional E c = 3;\n  optional bytes d = 4;\n  Sub e = 5;\n  oneof pick {\n    string f = 6;\n    Sub g = 7;\n  }\n  optional int64 h = 8;\n}\n"},
		{"json-names", head + "message Foo {\n  string by_user_id = 1 [json_name = \"byUserID\"];\n  string plain_name = 2;\n  string x = 3 [json_name = \"X\"];\n}\n"},
		{"nested-and-shadowing", head + "message Status {}\nmessage Foo {\n  enum Status {\n    STATUS_UNSPECIFIED = 0;\n  }\n  message Inner {\n    Status s = 1;\n    hw.v1.Status top = 2;\n  }\n  Status nested = 1;\n  hw.v1.Status top = 2;\n  Inner inner = 3;\n}\n"},
		{"real-oneof-between-fields", head + "message Sub {}\nmessage Foo {\n  string before = 1;\n  oneof pick {\n    string a = 2;\n    Sub b = 3;\n  }\n  string after = 4;\n  oneof second {\n    string c = 5;\n  }\n  string last = 6;\n}\n"},
		// built-in options (deprecated = true), reserved statements and /* block */ comments are outside the property's quantifier (compiled
		// j5s files and the repository's own protos use neither): the printer spells the former as an extension and drops the latter
	}
}
