// C20: id62 identifiers round-trip and have a fixed, pattern-conforming shape.
package main

import (
	"crypto/sha1"
	"fmt"
	"math/big"
	"os"
	"os/exec"
	"regexp"
	"strings"

	"github.com/pentops/j5/internal/zzverif/vk"
	"github.com/pentops/j5/lib/id62"
)

// published pattern, written from the documentation, not read from the code
var refPattern = regexp.MustCompile(`^[0-9A-Za-z]{22}$`)

func checkID(t *vk.T, id id62.UUID, coord string) {
	t.Coord(coord)
	t.Nontrivial()
	s := id.String()
	t.Step()
	in := fmt.Sprintf("%x", id[:])
	if len(s) != 22 {
		t.Violation("render-length|"+coord, fmt.Sprintf("String() of %s has length %d: %q", in, len(s), s), in, 22, s)
		return
	}
	if !refPattern.MatchString(s) || !id62.Pattern.MatchString(s) {
		t.Violation("render-pattern|"+coord, fmt.Sprintf("String() of %s = %q does not match the ID62 pattern", in, s), in, nil, s)
		return
	}
	back, err := id62.Parse(s)
	t.Step()
	if err != nil {
		t.Violation("parse-own-render|"+coord, fmt.Sprintf("Parse(String(%s)) failed: %v", in, err), in, nil, err.Error())
		return
	}
	if back != id {
		t.Violation("roundtrip|"+coord, fmt.Sprintf("Parse(String(%s)) = %x", in, back[:]), in, in, fmt.Sprintf("%x", back[:]))
		return
	}
	// independent reference rendering: base-62 value of the rendering equals the 128-bit value
	var ref big.Int
	ref.SetBytes(id[:])
	var got big.Int
	const digits = "0123456789abcdefghijklmnopqrstuvwxyzABCDEFGHIJKLMNOPQRSTUVWXYZ"
	for _, c := range s {
		got.Mul(&got, big.NewInt(62))
		got.Add(&got, big.NewInt(int64(strings.IndexRune(digits, c))))
	}
	if got.Cmp(&ref) != 0 {
		// a different digit alphabet is not excluded by the property; only injectivity is.
		t.Class("ok-other-alphabet")
	}
}

func hashLists() (nss []string, lists [][]string) {
	words := []string{"", "a", "b", "ab"}
	lists = append(lists, nil)
	for _, a := range words {
		lists = append(lists, []string{a})
		for _, b := range words {
			lists = append(lists, []string{a, b})
			for _, c := range words {
				lists = append(lists, []string{a, b, c})
			}
		}
	}
	// inputs that coincide once joined with a separator: [a b] vs [a/b], [a, b] ...
	seps := []string{"/", ",", " ", "|", "\x00", ":", "-"}
	for _, sp := range seps {
		lists = append(lists, []string{"a" + sp + "b"}, []string{"a" + sp, "b"}, []string{"a", sp + "b"}, []string{"a", sp, "b"}, []string{sp}, []string{sp, sp}, []string{sp + sp})
	}
	return []string{"", "ns", "a", "ns/a", "ns/"}, lists
}

// hashDump computes every hash in list order (or in reverse order) and prints them in list order:
// a value that depends on what was hashed earlier shows up as a difference between the two.
func hashDumpOrder(reverse bool) string {
	nss, lists := hashLists()
	type key struct{ i, j int }
	vals := map[key]id62.UUID{}
	var order []key
	for i := range nss {
		for j := range lists {
			order = append(order, key{i, j})
		}
	}
	if reverse {
		for a, b := 0, len(order)-1; a < b; a, b = a+1, b-1 {
			order[a], order[b] = order[b], order[a]
		}
	}
	for _, k := range order {
		vals[k] = id62.NewHash(nss[k.i], lists[k.j]...)
	}
	var sb strings.Builder
	for i := range nss {
		for j := range lists {
			h := vals[key{i, j}]
			fmt.Fprintf(&sb, "%x\n", h[:])
		}
	}
	return sb.String()
}

func hashDump() string { return hashDumpOrder(false) }

func main() {
	if len(os.Args) > 1 && os.Args[1] == "--hashdump" {
		fmt.Print(hashDump())
		return
	}
	if len(os.Args) > 1 && os.Args[1] == "--hashdump-reverse" {
		fmt.Print(hashDumpOrder(true))
		return
	}
	vk.Main(&vk.Check{
		ID:   "C20",
		Rule: "identifiers: every 128-bit value in the structured subsets (<=2 bits set, thorough <=3; <=3 non-zero bytes from {01,7f,80,ff}, thorough <=4; 62^k and neighbours; leading-zero-byte counts; top of range) is one case, distinct by value; strings: every string of length <=3 (thorough 4) over a 12-character alphabet, every single-character substitution / insertion / deletion in 4 rendered identifiers, plus fixed long / overflow strings, distinct by content; non-trivial = every identifier case and every non-empty string",
		Assumptions: []string{
			"bounded subset of the 2^128 identifier space; the remaining values rest on the arithmetic argument that 22 base-62 digits cover 2^128 and the rendering is left-padded",
			"math/big, crypto/sha1 and regexp are trusted",
		},
		Bounds: map[string]any{
			"id_bits_set":        "<=2 (quick), <=3 (thorough)",
			"id_nonzero_bytes":   "<=3 (quick), <=4 (thorough) over {01,7f,80,ff}",
			"powers_of_62":       "62^k, 62^k±1, k<=21",
			"string_alphabet":    "0 9 A Z a z + - _ space é NUL",
			"string_max_len":     "3 (quick), 4 (thorough); plus every 1-character substitution / insertion / deletion in 4 rendered identifiers over 14 (quick) / 130 (thorough) characters",
			"hash_inputs":        "5 namespaces x input lists over {\"\",a,b,ab} up to 3 inputs plus lists that coincide once joined with one of 7 separators; computed in list order and in reverse order in fresh processes",
		},
		Isolate: false,
		Run:     run,
	})
}

func run(r *vk.Runner) {
	// ---- identifiers ----
	r.Family("ids-bits")
	seen := map[id62.UUID]bool{}
	doID := func(id id62.UUID, coord string) {
		if seen[id] {
			return
		}
		seen[id] = true
		r.Do(fmt.Sprintf("id:%x", id[:]), func(t *vk.T) { checkID(t, id, coord) })
	}
	var zero id62.UUID
	doID(zero, "bits=0")
	for i := 0; i < 128; i++ {
		var a id62.UUID
		a[i/8] |= 1 << (7 - i%8)
		doID(a, "bits=1")
		for j := i + 1; j < 128; j++ {
			b := a
			b[j/8] |= 1 << (7 - j%8)
			doID(b, "bits=2")
		}
	}
	if !r.Quick() {
		// thorough: every value with exactly 3 bits set
		for i := 0; i < 128; i++ {
			for j := i + 1; j < 128; j++ {
				for k := j + 1; k < 128; k++ {
					var a id62.UUID
					a[i/8] |= 1 << (7 - i%8)
					a[j/8] |= 1 << (7 - j%8)
					a[k/8] |= 1 << (7 - k%8)
					doID(a, "bits=3")
				}
			}
		}
	}
	r.Family("ids-bytes")
	vals := []byte{0x01, 0x7f, 0x80, 0xff}
	for i := 0; i < 16; i++ {
		for _, vi := range vals {
			var a id62.UUID
			a[i] = vi
			doID(a, "bytes=1")
			for j := i + 1; j < 16; j++ {
				for _, vj := range vals {
					b := a
					b[j] = vj
					doID(b, "bytes=2")
					for k := j + 1; k < 16; k++ {
						for _, vkk := range vals {
							c := b
							c[k] = vkk
							doID(c, "bytes=3")
							if !r.Quick() {
								for l := k + 1; l < 16; l++ {
									for _, vl := range vals {
										d := c
										d[l] = vl
										doID(d, "bytes=4")
									}
								}
							}
						}
					}
				}
			}
		}
	}
	r.Family("ids-pow62")
	max := new(big.Int).Lsh(big.NewInt(1), 128)
	put := func(v *big.Int, coord string) {
		if v.Sign() < 0 || v.Cmp(max) >= 0 {
			return
		}
		var a id62.UUID
		v.FillBytes(a[:])
		doID(a, coord)
	}
	p := big.NewInt(1)
	for k := 0; k <= 21; k++ {
		for d := int64(-1); d <= 1; d++ {
			put(new(big.Int).Add(p, big.NewInt(d)), "pow62")
		}
		p = new(big.Int).Mul(p, big.NewInt(62))
	}
	for d := int64(1); d <= 4; d++ {
		put(new(big.Int).Sub(max, big.NewInt(d)), "top")
	}
	r.Family("ids-leading-zero")
	tails := [][]byte{{0x01}, {0xff}, {0x80, 0x00}, {0x12, 0x34, 0x56}}
	for z := 0; z <= 16; z++ {
		for _, tl := range tails {
			var a id62.UUID
			for i := z; i < 16; i++ {
				a[i] = tl[(i-z)%len(tl)]
			}
			doID(a, "leading-zero")
		}
	}
	// injectivity over everything rendered: distinct ids => distinct strings
	r.Family("ids-injective")
	r.Do("injective", func(t *vk.T) {
		t.Coord("injective")
		m := map[string]id62.UUID{}
		for id := range seen {
			s := id.String()
			t.Step()
			if o, ok := m[s]; ok && o != id {
				t.Violation("injective", fmt.Sprintf("%x and %x both render to %q", o[:], id[:], s), nil, nil, s)
				return
			}
			m[s] = id
		}
		t.Nontrivial()
		t.Sample(fmt.Sprintf("%d identifiers rendered, all renderings distinct", len(m)))
	})

	// ---- strings offered to the parser ----
	r.Family("parse-short")
	alpha := []string{"0", "9", "A", "Z", "a", "z", "+", "-", "_", " ", "é", "\x00"}
	var strs []string
	strs = append(strs, "")
	for _, a := range alpha {
		strs = append(strs, a)
		for _, b := range alpha {
			strs = append(strs, a+b)
			for _, c := range alpha {
				strs = append(strs, a+b+c)
			}
		}
	}
	if !r.Quick() {
		for _, a := range alpha {
			for _, b := range alpha {
				for _, c := range alpha {
					for _, d := range alpha {
						strs = append(strs, a+b+c+d)
					}
				}
			}
		}
	}
	maxS := new(big.Int).Sub(max, big.NewInt(1)).Text(62)
	overS := max.Text(62)
	long := []string{
		maxS, overS, strings.Repeat("Z", 22), strings.Repeat("z", 22), strings.Repeat("0", 22), strings.Repeat("0", 23),
		"1" + strings.Repeat("0", 22), strings.Repeat("Z", 23), strings.Repeat("0", 40) + "1", strings.Repeat("Z", 100000),
		strings.Repeat("0", 100000), "0x10", "0b1", "1_0", "-1", "+1", " 1", "1 ", "1\n", maxS + "\x00",
	}
	parseCase := func(s string, fam string) {
		r.Do(fmt.Sprintf("%s:%q", fam, trunc(s)), func(t *vk.T) {
			t.Coord("parse")
			if s != "" {
				t.Nontrivial()
			}
			id, err := id62.Parse(s)
			t.Step()
			if err != nil {
				t.Class("rejected")
				return
			}
			t.Class("accepted")
			t.Sample(s)
			// an accepted string must denote a value < 2^128: if it is a plain
			// base-62 numeral, its value must equal the parsed bytes
			var v big.Int
			if _, ok := v.SetString(s, 62); ok {
				if v.CmpAbs(max) >= 0 {
					t.Violation("parse-accepts-overflow", fmt.Sprintf("Parse(%q) accepted a value >= 2^128", trunc(s)), trunc(s), "error", fmt.Sprintf("%x", id[:]))
					return
				}
				var want id62.UUID
				new(big.Int).Abs(&v).FillBytes(want[:])
				if want != id {
					t.Violation("parse-value", fmt.Sprintf("Parse(%q) = %x, the numeral denotes %x", trunc(s), id[:], want[:]), trunc(s), fmt.Sprintf("%x", want[:]), fmt.Sprintf("%x", id[:]))
				}
			}
			// whatever was accepted renders to a conforming identifier again
			if rs := id.String(); len(rs) != 22 || !refPattern.MatchString(rs) {
				t.Violation("parse-then-render", fmt.Sprintf("Parse(%q).String() = %q", trunc(s), rs), trunc(s), nil, rs)
			}
		})
	}
	for _, s := range strs {
		parseCase(s, "short")
	}
	r.Family("parse-long")
	for _, s := range long {
		parseCase(s, "long")
	}
	// near-valid strings: every single-character substitution, deletion and insertion in rendered identifiers
	r.Family("parse-near-valid")
	{
		subs := []string{"0", "1", "9", "A", "Z", "a", "z", "-", "_", "+", " ", "é", "\x00", "/"}
		if !r.Quick() {
			subs = nil
			for c := 0; c < 128; c++ {
				subs = append(subs, string(rune(c)))
			}
			subs = append(subs, "é", "\xff")
		}
		var bases []string
		var top id62.UUID
		for i := range top {
			top[i] = 0xff
		}
		var mid id62.UUID
		mid[0] = 0x80
		var low id62.UUID
		low[15] = 1
		for _, id := range []id62.UUID{top, mid, low, zero} {
			bases = append(bases, id.String())
		}
		done := map[string]bool{}
		for _, base := range bases {
			for pos := 0; pos <= len(base); pos++ {
				var variants []string
				if pos < len(base) {
					variants = append(variants, base[:pos]+base[pos+1:])
				}
				for _, c := range subs {
					variants = append(variants, base[:pos]+c+base[pos:])
					if pos < len(base) {
						variants = append(variants, base[:pos]+c+base[pos+1:])
					}
				}
				for _, v := range variants {
					if !done[v] {
						done[v] = true
						parseCase(v, "near")
					}
				}
			}
		}
	}
	// explicit: the smallest overflowing numeral must be rejected, the largest fitting accepted
	r.Do("overflow-boundary", func(t *vk.T) {
		t.Coord("overflow-boundary")
		t.Nontrivial()
		if _, err := id62.Parse(overS); err == nil {
			t.Violation("parse-accepts-overflow", "Parse(2^128 in base 62) accepted", overS, "error", "accepted")
		}
		if _, err := id62.Parse(maxS); err != nil {
			t.Violation("parse-rejects-max", "Parse(2^128-1 in base 62) rejected: "+err.Error(), maxS, "accepted", err.Error())
		}
	})

	// ---- hash-derived identifiers ----
	r.Family("hash")
	nss, lists := hashLists()
	r.Do("hash-cross-process", func(t *vk.T) {
		t.Coord("hash-cross-process")
		t.Nontrivial()
		exe, _ := os.Executable()
		for i := 0; i < 2; i++ {
			out, err := exec.Command(exe, "--hashdump").Output()
			if err != nil {
				panic(err)
			}
			t.Steps(len(nss) * len(lists))
			if string(out) != hashDump() {
				t.Violation("hash-not-pure-across-processes", "NewHash values differ between two processes", nil, nil, nil)
			}
		}
		// history: the same calls made in the opposite order, in a fresh process
		rev, err := exec.Command(exe, "--hashdump-reverse").Output()
		if err != nil {
			panic(err)
		}
		t.Steps(len(nss) * len(lists))
		if string(rev) != hashDump() {
			fw, rv := strings.Split(hashDump(), "\n"), strings.Split(string(rev), "\n")
			where := ""
			for i := range fw {
				if i < len(rv) && fw[i] != rv[i] {
					where = fmt.Sprintf("NewHash(%q, %q)", nss[i/len(lists)], lists[i%len(lists)])
					break
				}
			}
			t.Violation("hash-depends-on-earlier-calls", "NewHash values depend on which other inputs were hashed earlier in the process: first difference at "+where, where, nil, nil)
		}
	})
	for _, ns := range nss {
		for _, l := range lists {
			ns, l := ns, l
			r.Do(fmt.Sprintf("hash:%q:%q", ns, l), func(t *vk.T) {
				t.Coord("hash")
				t.Nontrivial()
				a := id62.NewHash(ns, l...)
				b := id62.NewHash(ns, l...)
				t.Steps(2)
				if a != b {
					t.Violation("hash-not-pure", fmt.Sprintf("NewHash(%q,%q) differs between calls", ns, l), nil, nil, nil)
				}
				h := sha1.New()
				h.Write([]byte(ns))
				for _, s := range l {
					h.Write([]byte(s))
				}
				var want id62.UUID
				copy(want[:], h.Sum(nil))
				if a != want {
					// the property fixes purity, not the hash function: recorded, not a violation
					t.Class("hash-differs-from-sha1-reference")
				}
				checkID(t, a, "hash")
			})
		}
	}
}

func trunc(s string) string {
	if len(s) > 60 {
		return fmt.Sprintf("%s…(%d bytes)", s[:60], len(s))
	}
	return s
}
