package gpb

import (
	"fmt"
	"math/big"
	"strings"

	"google.golang.org/protobuf/proto"
	"google.golang.org/protobuf/reflect/protoreflect"
)

// Case is one schema of a family.
type Case struct {
	ID      string // kind/label/context coordinates
	Coord   string // structural coordinates for signatures
	Schema  *Schema
	Under   *Field // the field under test (nil for pair schemas)
	Holder  *Message
}

var Contexts = []string{"top", "nested", "flattened", "arm-message", "array-element", "map-value", "oneof-arm-scalar", "exposed-oneof", "odd-name", "plain-oneof-named-type"}

func labelsFor(k Kind) []Label {
	switch k {
	case KFlatten:
		return []Label{Single}
	case KJ5Any, KPbAny:
		// the property lists arrays / maps of scalars, enums, objects and oneofs only
		return []Label{Single}
	}
	return []Label{Single, Optional, Repeated, Map}
}

func newField(name string, num int32, k Kind, l Label) *Field {
	f := F(name, num, k, l)
	switch k {
	case KEnum:
		f.Enum = DefaultEnum
	case KObject, KFlatten:
		f.Msg = NewSub()
	case KOneof:
		f.Msg = NewWrap()
	}
	return f
}

// EnumShapes: enums in which one option's short name is another option's prefixed name, in both
// declaration orders (the canonical spelling of an option always denotes that option).
var EnumShapes = []*Enum{
	{Name: "Level", Prefix: "LEVEL_", Values: []EnumVal{{Short: "UNSPECIFIED"}, {Short: "HIGH", Num: 1, Shadowed: true}, {Short: "LEVEL_HIGH", Num: 2}}},
	{Name: "Level", Prefix: "LEVEL_", Values: []EnumVal{{Short: "UNSPECIFIED"}, {Short: "LEVEL_HIGH", Num: 1}, {Short: "HIGH", Num: 2, Shadowed: true}}},
}

func enumShapeCases() []*Case {
	var out []*Case
	for i, e := range EnumShapes {
		for _, l := range []Label{Single, Optional, Repeated, Map} {
			f := F("f_val", 1, KEnum, l)
			f.Enum = e
			root := &Message{Name: "T", Fields: []*Field{f}, Full: true}
			out = append(out, &Case{
				ID:     fmt.Sprintf("enum-shape/%d/%s", i, l),
				Coord:  fmt.Sprintf("kind=enum|label=%s|context=enum-shape-%d", l, i),
				Schema: &Schema{Enums: []*Enum{e}, Messages: []*Message{root}, Root: root},
				Under:  f, Holder: root,
			})
		}
	}
	return out
}

// flattenNameCases: flatten inside flatten where the inner flattened FIELD (which contributes no
// member of its own) is named like a member of the outer object: a valid type.
func flattenNameCases() []*Case {
	inner := &Message{Name: "Inner", Fields: []*Field{F("x_val", 1, KString, Single), F("n_val", 2, KInt64, Single)}, Full: true}
	leafIn := F("leaf", 1, KFlatten, Single)
	leafIn.Msg = inner
	mid := &Message{Name: "Mid", Fields: []*Field{leafIn, F("m_val", 2, KBool, Single)}, Full: true}
	midF := F("mid", 2, KFlatten, Single)
	midF.Msg = mid
	leaf := F("leaf", 1, KString, Single)
	root := &Message{Name: "T", Fields: []*Field{leaf, midF}, Full: true}
	out := []*Case{{
		ID: "flatten-field-named-like-outer-member", Coord: "kind=string|label=single|context=flatten-field-named-like-outer-member",
		Schema: &Schema{Messages: []*Message{root}, Root: root}, Under: leaf, Holder: root,
	}}
	// a flattened field (which contributes no member of its own) named like one of its own members,
	// and like a member of another flattened field
	{
		addr := &Message{Name: "Address", Fields: []*Field{F("address", 1, KString, Single), F("city", 2, KString, Single)}, Full: true}
		af := F("address", 1, KFlatten, Single)
		af.Msg = addr
		r1 := &Message{Name: "T", Fields: []*Field{af, F("note", 2, KString, Single)}, Full: true}
		out = append(out, &Case{ID: "flatten-field-named-like-own-member", Coord: "kind=flatten|label=single|context=flatten-field-named-like-own-member",
			Schema: &Schema{Messages: []*Message{r1}, Root: r1}, Under: af, Holder: r1})
		geo := &Message{Name: "Geo", Fields: []*Field{F("lat", 1, KDouble, Single), F("place", 2, KString, Single)}, Full: true}
		place := &Message{Name: "Place", Fields: []*Field{F("zip", 1, KString, Single)}, Full: true}
		gf := F("geo", 1, KFlatten, Single)
		gf.Msg = geo
		pf := F("place", 2, KFlatten, Single) // named like Geo.place
		pf.Msg = place
		r2 := &Message{Name: "T", Fields: []*Field{gf, pf}, Full: true}
		out = append(out, &Case{ID: "flatten-field-named-like-member-of-another", Coord: "kind=flatten|label=single|context=flatten-field-named-like-member-of-another",
			Schema: &Schema{Messages: []*Message{r2}, Root: r2}, Under: gf, Holder: r2})
	}
	return out
}

// SingleFieldCases: every (kind x label x context) single-field message.
func SingleFieldCases() []*Case {
	out := append(enumShapeCases(), flattenNameCases()...)
	for _, k := range AllKinds() {
		for _, l := range labelsFor(k) {
			for _, ctx := range Contexts {
				if (ctx == "oneof-arm-scalar" || ctx == "exposed-oneof") && l != Single {
					continue
				}
				if ctx == "plain-oneof-named-type" && (k == KObject || k == KFlatten) {
					continue // would share the Sub declaration / flatten into the same names
				}
				if ctx == "oneof-arm-scalar" && k == KFlatten {
					continue
				}
				if ctx == "exposed-oneof" && k == KFlatten {
					continue
				}
				c := buildContext(k, l, ctx)
				if c == nil {
					continue
				}
				out = append(out, c)
			}
		}
	}
	return out
}

func buildContext(k Kind, l Label, ctx string) *Case {
	f := newField("f_val", 1, k, l)
	s := &Schema{Enums: []*Enum{DefaultEnum}}
	var root *Message
	holder := &Message{Name: "Holder", Fields: []*Field{f}, Full: true}
	switch ctx {
	case "top":
		root = &Message{Name: "T", Fields: []*Field{f}, Full: true}
		holder = root
	case "odd-name":
		// a field whose protobuf JSON name (userID) differs from other camel-casing conventions (userId)
		f.Name, f.JSON = "user_ID", "userID"
		root = &Message{Name: "T", Fields: []*Field{f}, Full: true}
		holder = root
	case "nested":
		h := F("holder", 1, KObject, Single)
		h.Msg = holder
		root = &Message{Name: "T", Fields: []*Field{h}, Full: true}
	case "flattened":
		h := F("holder", 1, KFlatten, Single)
		h.Msg = holder
		root = &Message{Name: "T", Fields: []*Field{h, F("other", 2, KString, Single)}, Full: true}
	case "arm-message":
		arm := F("holder", 1, KObject, Single)
		arm.Msg = holder
		alt := F("alt", 2, KObject, Single)
		alt.Msg = &Message{Name: "Alt", Fields: []*Field{F("z_val", 1, KBool, Single)}}
		w := &Message{Name: "W", IsOneof: true, Fields: []*Field{arm, alt}, Full: true}
		wf := F("w", 1, KOneof, Single)
		wf.Msg = w
		root = &Message{Name: "T", Fields: []*Field{wf}, Full: true}
	case "array-element":
		h := F("holders", 1, KObject, Repeated)
		h.Msg = holder
		root = &Message{Name: "T", Fields: []*Field{h}, Full: true}
	case "map-value":
		h := F("holder_map", 1, KObject, Map)
		h.Msg = holder
		root = &Message{Name: "T", Fields: []*Field{h}, Full: true}
	case "oneof-arm-scalar":
		alt := F("alt", 2, KString, Single)
		w := &Message{Name: "W", IsOneof: true, ExplicitOneofOption: true, Fields: []*Field{f, alt}, Full: true}
		wf := F("w", 1, KOneof, Single)
		wf.Msg = w
		root = &Message{Name: "T", Fields: []*Field{wf}, Full: true}
		holder = w
	case "plain-oneof-named-type":
		// a proto oneof called "type" whose members are messages, not exposed, next to an ordinary
		// field: an object with three ordinary members, NOT a oneof wrapper
		arm := F("arm_one", 2, KObject, Single)
		arm.Msg = NewSub()
		arm.PlainGroup = "type"
		arm2 := F("arm_two", 3, KObject, Single)
		arm2.Msg = &Message{Name: "Alt", Fields: []*Field{F("z_val", 1, KBool, Single)}}
		arm2.PlainGroup = "type"
		root = &Message{Name: "T", Fields: []*Field{f, arm, arm2}, Full: true}
		holder = root
	case "exposed-oneof":
		f.Group = "choice"
		alt := F("alt", 2, KString, Single)
		alt.Group = "choice"
		root = &Message{Name: "T", Fields: []*Field{f, alt, F("tail", 3, KInt32, Single)}, Full: true}
		holder = root
	}
	s.Messages = []*Message{root}
	s.Root = root
	// types needed by Any payloads
	needSub := true
	for _, m := range allMessages(root) {
		if m.Name == "Sub" {
			needSub = false
		}
	}
	if needSub {
		s.Messages = append(s.Messages, NewSub())
	}
	return &Case{ID: fmt.Sprintf("%s/%s/%s", k, l, ctx), Coord: fmt.Sprintf("kind=%s|label=%s|context=%s", k, l, ctx), Schema: s, Under: f, Holder: holder}
}

func allMessages(root *Message) []*Message {
	seen := map[*Message]bool{}
	var out []*Message
	var rec func(m *Message)
	rec = func(m *Message) {
		if m == nil || seen[m] {
			return
		}
		seen[m] = true
		out = append(out, m)
		for _, n := range m.Nested {
			rec(n)
		}
		for _, f := range m.Fields {
			rec(f.Msg)
		}
	}
	rec(root)
	return out
}

// PairKinds is the reduced alphabet for two-field schemas.
var PairKinds = []struct {
	K Kind
	L Label
}{
	{KString, Single}, {KInt64, Single}, {KInt32, Optional}, {KBool, Optional}, {KBytes, Single}, {KEnum, Single},
	{KObject, Single}, {KOneof, Single}, {KFlatten, Single}, {KString, Repeated}, {KObject, Repeated}, {KInt64, Map},
	{KTimestamp, Single}, {KDecimal, Single},
}

// PairCases: every ordered pair of top-level fields over PairKinds.
func PairCases() []*Case {
	var out []*Case
	for i, a := range PairKinds {
		for j, b := range PairKinds {
			fa := newField("a_val", 1, a.K, a.L)
			fb := newField("b_val", 2, b.K, b.L)
			if fa.Msg != nil && fb.Msg != nil && fa.Msg.Name == fb.Msg.Name {
				fb.Msg = fa.Msg // share the declaration
			}
			if a.K == KFlatten && b.K == KFlatten {
				continue // duplicate member names
			}
			root := &Message{Name: "T", Fields: []*Field{fa, fb}, Full: false}
			s := &Schema{Enums: []*Enum{DefaultEnum}, Messages: []*Message{root}, Root: root}
			out = append(out, &Case{
				ID:     fmt.Sprintf("pair/%d.%s.%s/%d.%s.%s", i, a.K, a.L, j, b.K, b.L),
				Coord:  fmt.Sprintf("pair|%s.%s|%s.%s", a.K, a.L, b.K, b.L),
				Schema: s, Holder: root,
			})
		}
	}
	return out
}

// ---------- equality under the property's normalisation ----------

// Normalize rewrites msg in place: decimals to a canonical numeral, a present
// but empty flattened sub-message to absent. Everything else is untouched.
// keepEmptyFlatten: when set, Normalize only canonicalises decimals and Any payloads.
var keepEmptyFlatten bool

func Normalize(msg protoreflect.Message, m *Message, s *Schema) {
	md := msg.Descriptor()
	for _, f := range m.Fields {
		fd := md.Fields().ByName(protoreflect.Name(f.Name))
		if fd == nil {
			continue
		}
		normElem := func(v protoreflect.Value) {
			switch f.Kind {
			case KDecimal:
				dm := v.Message()
				vf := dm.Descriptor().Fields().ByName("value")
				if r, ok := new(big.Rat).SetString(dm.Get(vf).String()); ok {
					dm.Set(vf, protoreflect.ValueOfString(r.RatString()))
				}
			case KObject, KFlatten, KOneof:
				Normalize(v.Message(), f.Msg, s)
			case KPbAny:
				// the payload is compared as a message, not as bytes: re-serialise deterministically
				am := v.Message()
				tf := am.Descriptor().Fields().ByName("type_url")
				vf := am.Descriptor().Fields().ByName("value")
				name := strings.TrimPrefix(am.Get(tf).String(), "type.googleapis.com/")
				if mt, err := (Resolver{S: s}).FindMessageByName(protoreflect.FullName(name)); err == nil {
					inner := mt.New()
					if err := proto.Unmarshal(am.Get(vf).Bytes(), inner.Interface()); err == nil {
						if b, err := (proto.MarshalOptions{Deterministic: true}).Marshal(inner.Interface()); err == nil {
							am.Set(vf, protoreflect.ValueOfBytes(b))
						}
					}
				}
			}
		}
		switch f.Label {
		case Single, Optional:
			if fd.Message() == nil || !msg.Has(fd) {
				continue
			}
			normElem(msg.Get(fd))
			if f.Kind == KFlatten && !keepEmptyFlatten && isEmptyMessage(msg.Get(fd).Message()) {
				msg.Clear(fd)
			}
		case Repeated:
			if fd.Message() == nil {
				continue
			}
			l := msg.Get(fd).List()
			for i := 0; i < l.Len(); i++ {
				normElem(l.Get(i))
			}
		case Map:
			if fd.MapValue().Message() == nil {
				continue
			}
			msg.Get(fd).Map().Range(func(k protoreflect.MapKey, v protoreflect.Value) bool {
				normElem(v)
				return true
			})
		}
	}
}

func isEmptyMessage(m protoreflect.Message) bool {
	empty := true
	m.Range(func(protoreflect.FieldDescriptor, protoreflect.Value) bool { empty = false; return false })
	return empty && len(m.GetUnknown()) == 0
}

// EqualNormalized compares two messages of the same type.
func EqualNormalized(a, b protoreflect.Message, m *Message, s *Schema) bool {
	ac := proto.Clone(a.Interface()).ProtoReflect()
	bc := proto.Clone(b.Interface()).ProtoReflect()
	Normalize(ac, m, s)
	Normalize(bc, m, s)
	return proto.Equal(ac.Interface(), bc.Interface())
}

// EqualStrict compares two messages exactly (presence included), with only
// decimals compared numerically and Any payloads compared as messages.
func EqualStrict(a, b protoreflect.Message, m *Message, s *Schema) bool {
	keepEmptyFlatten = true
	defer func() { keepEmptyFlatten = false }()
	ac := proto.Clone(a.Interface()).ProtoReflect()
	bc := proto.Clone(b.Interface()).ProtoReflect()
	Normalize(ac, m, s)
	Normalize(bc, m, s)
	return proto.Equal(ac.Interface(), bc.Interface())
}

// DeepCases (thorough): the single-field contexts nested one level further —
// the whole inner schema is placed below an outer object / flattened object /
// oneof arm / array element / map value.
func DeepCases() []*Case {
	var out []*Case
	outers := []string{"nested", "flattened", "arm-message", "array-element", "map-value"}
	for _, k := range AllKinds() {
		for _, l := range labelsFor(k) {
			for _, inner := range Contexts {
				if (inner == "oneof-arm-scalar" || inner == "exposed-oneof") && (l != Single || k == KFlatten) {
					continue
				}
				if inner == "plain-oneof-named-type" && (k == KObject || k == KFlatten) {
					continue
				}
				for _, outer := range outers {
					c := buildContext(k, l, inner)
					if c == nil {
						continue
					}
					in := c.Schema.Root
					in.Name = "Inner"
					for _, m := range allMessages(in) {
						if m.Name == "W" || m.Name == "Alt" || m.Name == "Holder" {
							m.Name = "In" + m.Name
						}
					}
					var root *Message
					switch outer {
					case "nested":
						h := F("outer_holder", 1, KObject, Single)
						h.Msg = in
						root = &Message{Name: "T", Fields: []*Field{h}, Full: true}
					case "flattened":
						h := F("outer_holder", 1, KFlatten, Single)
						h.Msg = in
						root = &Message{Name: "T", Fields: []*Field{h, F("outer_other", 2, KString, Single)}, Full: true}
					case "arm-message":
						arm := F("outer_holder", 1, KObject, Single)
						arm.Msg = in
						alt := F("outer_alt", 2, KObject, Single)
						alt.Msg = &Message{Name: "Alt", Fields: []*Field{F("z_val", 1, KBool, Single)}}
						w := &Message{Name: "W", IsOneof: true, Fields: []*Field{arm, alt}, Full: true}
						wf := F("outer_w", 1, KOneof, Single)
						wf.Msg = w
						root = &Message{Name: "T", Fields: []*Field{wf}, Full: true}
					case "array-element":
						h := F("outer_holders", 1, KObject, Repeated)
						h.Msg = in
						root = &Message{Name: "T", Fields: []*Field{h}, Full: true}
					case "map-value":
						h := F("outer_map", 1, KObject, Map)
						h.Msg = in
						root = &Message{Name: "T", Fields: []*Field{h}, Full: true}
					}
					// the inner levels keep three representatives per field, the field under test its full alphabet
					for _, m := range allMessages(in) {
						if m != c.Holder {
							m.Full = false
						}
					}
					s := c.Schema
					s.Messages[0] = root
					s.Root = root
					out = append(out, &Case{ID: fmt.Sprintf("deep/%s/%s/%s/%s", k, l, inner, outer), Coord: fmt.Sprintf("kind=%s|label=%s|context=%s>%s", k, l, outer, inner), Schema: s, Under: c.Under, Holder: c.Holder})
				}
			}
		}
	}
	return out
}

// DeepQuickCases: the slice of DeepCases with oneof-shaped inner contexts (where presence is
// subtle) for four kinds; part of the quick tiers.
func DeepQuickCases() []*Case {
	var out []*Case
	for _, c := range DeepCases() {
		k := c.Under.Kind
		if k != KBool && k != KString && k != KEnum && k != KInt64 {
			continue
		}
		if strings.Contains(c.ID, "/exposed-oneof/") || strings.Contains(c.ID, "/plain-oneof-named-type/") || strings.Contains(c.ID, "/oneof-arm-scalar/") || strings.Contains(c.ID, "/flattened/") {
			out = append(out, c)
		}
	}
	return out
}
