// Package gpb (G-pb) builds raw proto3 descriptor sets and dynamic messages
// for the codec checks (C01, C03, C06, C08, C10) and holds the reference model
// of the J5 JSON wire format, written from README.md ("Scalar Types") and the
// documented oneof / any / flatten rules — not from the implementation.
package gpb

import (
	"fmt"

	"buf.build/gen/go/bufbuild/protovalidate/protocolbuffers/go/buf/validate"
	"github.com/pentops/j5/gen/j5/ext/v1/ext_j5pb"
	_ "github.com/pentops/j5/gen/j5/list/v1/list_j5pb"
	_ "github.com/pentops/j5/j5types/any_j5t"
	_ "github.com/pentops/j5/j5types/date_j5t"
	_ "github.com/pentops/j5/j5types/decimal_j5t"
	"google.golang.org/protobuf/proto"
	"google.golang.org/protobuf/reflect/protodesc"
	"google.golang.org/protobuf/reflect/protoreflect"
	"google.golang.org/protobuf/reflect/protoregistry"
	"google.golang.org/protobuf/types/descriptorpb"
	"google.golang.org/protobuf/types/dynamicpb"
	_ "google.golang.org/protobuf/types/known/anypb"
	_ "google.golang.org/protobuf/types/known/timestamppb"
)

var _ = validate.E_Field

type Kind int

const (
	KString Kind = iota
	KBool
	KInt32
	KSint32
	KInt64
	KSint64
	KUint32
	KUint64
	KFloat
	KDouble
	KBytes
	KKey
	KKeyID62
	KKeyUUID
	KDate
	KDecimal
	KTimestamp
	KEnum
	KObject
	KOneof   // oneof wrapper message
	KFlatten // object field with flatten
	KJ5Any
	KPbAny
	nKinds
)

var kindNames = [...]string{"string", "bool", "int32", "sint32", "int64", "sint64", "uint32", "uint64", "float", "double", "bytes", "key", "key-id62", "key-uuid", "date", "decimal", "timestamp", "enum", "object", "oneof", "flatten", "j5any", "pbany"}

func (k Kind) String() string { return kindNames[k] }

func AllKinds() []Kind {
	out := make([]Kind, 0, nKinds)
	for k := Kind(0); k < nKinds; k++ {
		out = append(out, k)
	}
	return out
}

func (k Kind) IsMessage() bool { return k == KObject || k == KOneof || k == KFlatten }
func (k Kind) IsScalarLike() bool {
	return k <= KTimestamp
}

type Label int

const (
	Single Label = iota
	Optional
	Repeated
	Map
)

var labelNames = [...]string{"single", "optional", "repeated", "map"}

func (l Label) String() string { return labelNames[l] }

type Enum struct {
	Name   string // e.g. Color
	Prefix string // COLOR_
	Values []EnumVal
}

type EnumVal struct {
	Short string
	Num   int32
	// Shadowed: the prefixed spelling of this option is the short name of another option of the
	// same enum (HIGH next to LEVEL_HIGH); that spelling then denotes the other option
	Shadowed bool
}

type Field struct {
	Name  string
	JSON  string
	Num   int32
	Kind  Kind
	Label Label
	Msg   *Message // KObject / KOneof / KFlatten
	Enum  *Enum
	Group string // non-empty: member of the exposed real oneof of that name
	// PlainGroup: member of a real proto oneof of that name that is NOT exposed:
	// J5 sees ordinary fields, protobuf allows at most one of them to be set.
	PlainGroup string
}

type Message struct {
	Name      string
	Fields    []*Field
	IsOneof   bool // oneof wrapper: all fields are arms of oneof "type"
	ExplicitOneofOption bool // mark with (j5.ext.v1.message).oneof (arms may be scalars)
	Nested    []*Message
	Full      bool // enumerate the full value alphabet of every field
}

// Schema is one file with one package.
type Schema struct {
	Package  string
	Messages []*Message
	Enums    []*Enum
	Root     *Message

	File  protoreflect.FileDescriptor
	Files *protoregistry.Files
	Types *dynamicpb.Types

	// Prebuilt schemas carry descriptors that were not built from this model
	// (compiled from j5s): Build is a no-op and Lookup maps model messages to them.
	Prebuilt bool
	Lookup   func(m *Message) protoreflect.MessageDescriptor
}

func camel(s string) string {
	out := make([]byte, 0, len(s))
	up := false
	for i := 0; i < len(s); i++ {
		c := s[i]
		if c == '_' {
			up = true
			continue
		}
		if up && c >= 'a' && c <= 'z' {
			c -= 32
		}
		up = false
		out = append(out, c)
	}
	return string(out)
}

// F makes a field; the JSON name is the protobuf default.
func F(name string, num int32, k Kind, l Label) *Field {
	return &Field{Name: name, JSON: camel(name), Num: num, Kind: k, Label: l}
}

var DefaultEnum = &Enum{Name: "Color", Prefix: "COLOR_", Values: []EnumVal{{Short: "UNSPECIFIED"}, {Short: "RED", Num: 1}, {Short: "DARK_BLUE", Num: 3}, {Short: "GREEN", Num: 2}, {Short: "COLOR_ISH", Num: 7}}}

// Sub is the default object type.
func NewSub() *Message {
	return &Message{Name: "Sub", Fields: []*Field{F("s_val", 1, KString, Single), F("n_val", 2, KInt64, Single)}}
}

// NewWrap is the default oneof wrapper (auto-detected: one oneof called
// "type", all arms messages).
func NewWrap() *Message {
	a := &Message{Name: "ArmA", Fields: []*Field{F("x_val", 1, KString, Single)}}
	b := &Message{Name: "ArmB", Fields: []*Field{F("y_val", 1, KInt32, Single)}}
	fa := F("arm_a", 1, KObject, Single)
	fa.Msg = a
	fb := F("arm_b", 2, KObject, Single)
	fb.Msg = b
	return &Message{Name: "Wrap", IsOneof: true, Fields: []*Field{fa, fb}, Nested: []*Message{a, b}}
}

func protoType(k Kind) (descriptorpb.FieldDescriptorProto_Type, string) {
	T := descriptorpb.FieldDescriptorProto_TYPE_STRING
	switch k {
	case KString, KKey, KKeyID62, KKeyUUID:
		return descriptorpb.FieldDescriptorProto_TYPE_STRING, ""
	case KBool:
		return descriptorpb.FieldDescriptorProto_TYPE_BOOL, ""
	case KInt32:
		return descriptorpb.FieldDescriptorProto_TYPE_INT32, ""
	case KSint32:
		return descriptorpb.FieldDescriptorProto_TYPE_SINT32, ""
	case KInt64:
		return descriptorpb.FieldDescriptorProto_TYPE_INT64, ""
	case KSint64:
		return descriptorpb.FieldDescriptorProto_TYPE_SINT64, ""
	case KUint32:
		return descriptorpb.FieldDescriptorProto_TYPE_UINT32, ""
	case KUint64:
		return descriptorpb.FieldDescriptorProto_TYPE_UINT64, ""
	case KFloat:
		return descriptorpb.FieldDescriptorProto_TYPE_FLOAT, ""
	case KDouble:
		return descriptorpb.FieldDescriptorProto_TYPE_DOUBLE, ""
	case KBytes:
		return descriptorpb.FieldDescriptorProto_TYPE_BYTES, ""
	case KDate:
		return descriptorpb.FieldDescriptorProto_TYPE_MESSAGE, ".j5.types.date.v1.Date"
	case KDecimal:
		return descriptorpb.FieldDescriptorProto_TYPE_MESSAGE, ".j5.types.decimal.v1.Decimal"
	case KTimestamp:
		return descriptorpb.FieldDescriptorProto_TYPE_MESSAGE, ".google.protobuf.Timestamp"
	case KJ5Any:
		return descriptorpb.FieldDescriptorProto_TYPE_MESSAGE, ".j5.types.any.v1.Any"
	case KPbAny:
		return descriptorpb.FieldDescriptorProto_TYPE_MESSAGE, ".google.protobuf.Any"
	}
	return T, ""
}

func upperFirst(s string) string {
	if s == "" {
		return s
	}
	c := s[0]
	if c >= 'a' && c <= 'z' {
		c -= 32
	}
	return string(c) + s[1:]
}

// Build links the schema into descriptors (private registry; the global
// registries are only read).
func (s *Schema) Build() error {
	if s.Prebuilt {
		return nil
	}
	if s.Package == "" {
		s.Package = "vt.v1"
	}
	fdp := &descriptorpb.FileDescriptorProto{
		Name:    proto.String("vt/v1/t.proto"),
		Package: proto.String(s.Package),
		Syntax:  proto.String("proto3"),
		Dependency: []string{
			"j5/ext/v1/annotations.proto",
			"j5/types/date/v1/date.proto",
			"j5/types/decimal/v1/decimal.proto",
			"j5/types/any/v1/any.proto",
			"google/protobuf/timestamp.proto",
			"google/protobuf/any.proto",
		},
	}
	for _, e := range s.Enums {
		ed := &descriptorpb.EnumDescriptorProto{Name: proto.String(e.Name)}
		for _, v := range e.Values {
			ed.Value = append(ed.Value, &descriptorpb.EnumValueDescriptorProto{Name: proto.String(e.Prefix + v.Short), Number: proto.Int32(v.Num)})
		}
		fdp.EnumType = append(fdp.EnumType, ed)
	}
	var addMsg func(m *Message) *descriptorpb.DescriptorProto
	addMsg = func(m *Message) *descriptorpb.DescriptorProto {
		dp := &descriptorpb.DescriptorProto{Name: proto.String(m.Name)}
		groups := map[string]int32{}
		if m.IsOneof {
			dp.OneofDecl = append(dp.OneofDecl, &descriptorpb.OneofDescriptorProto{Name: proto.String("type")})
			groups["\x00wrapper"] = 0
			if m.ExplicitOneofOption {
				mo := &descriptorpb.MessageOptions{}
				proto.SetExtension(mo, ext_j5pb.E_Message, &ext_j5pb.MessageOptions{Type: &ext_j5pb.MessageOptions_Oneof{Oneof: &ext_j5pb.OneofMessageOptions{}}})
				dp.Options = mo
			}
		}
		// real exposed oneofs first (synthetic oneofs must come last)
		for _, f := range m.Fields {
			if f.Group != "" {
				if _, ok := groups[f.Group]; !ok {
					oo := &descriptorpb.OneofOptions{}
					proto.SetExtension(oo, ext_j5pb.E_Oneof, &ext_j5pb.OneofOptions{Expose: true})
					groups[f.Group] = int32(len(dp.OneofDecl))
					dp.OneofDecl = append(dp.OneofDecl, &descriptorpb.OneofDescriptorProto{Name: proto.String(f.Group), Options: oo})
				}
			}
		}
		for _, f := range m.Fields {
			if f.PlainGroup != "" {
				if _, ok := groups["plain:"+f.PlainGroup]; !ok {
					groups["plain:"+f.PlainGroup] = int32(len(dp.OneofDecl))
					dp.OneofDecl = append(dp.OneofDecl, &descriptorpb.OneofDescriptorProto{Name: proto.String(f.PlainGroup)})
				}
			}
		}
		for _, f := range m.Fields {
			t, tn := protoType(f.Kind)
			fd := &descriptorpb.FieldDescriptorProto{
				Name:     proto.String(f.Name),
				Number:   proto.Int32(f.Num),
				JsonName: proto.String(f.JSON),
				Label:    descriptorpb.FieldDescriptorProto_LABEL_OPTIONAL.Enum(),
			}
			fo := &descriptorpb.FieldOptions{}
			hasOpt := false
			switch f.Kind {
			case KEnum:
				t = descriptorpb.FieldDescriptorProto_TYPE_ENUM
				tn = "." + s.Package + "." + f.Enum.Name
			case KObject, KOneof, KFlatten:
				t = descriptorpb.FieldDescriptorProto_TYPE_MESSAGE
				tn = "." + s.Package + "." + f.Msg.Name
				if f.Kind == KFlatten {
					proto.SetExtension(fo, ext_j5pb.E_Field, &ext_j5pb.FieldOptions{Type: &ext_j5pb.FieldOptions_Message{Message: &ext_j5pb.MessageFieldOptions{Flatten: true}}})
					hasOpt = true
				}
			case KKey:
				proto.SetExtension(fo, ext_j5pb.E_Field, &ext_j5pb.FieldOptions{Type: &ext_j5pb.FieldOptions_Key{Key: &ext_j5pb.KeyField{}}})
				hasOpt = true
			case KKeyID62:
				proto.SetExtension(fo, ext_j5pb.E_Field, &ext_j5pb.FieldOptions{Type: &ext_j5pb.FieldOptions_Key{Key: &ext_j5pb.KeyField{Type: &ext_j5pb.KeyField_Format_{Format: ext_j5pb.KeyField_FORMAT_ID62}}}})
				hasOpt = true
			case KKeyUUID:
				proto.SetExtension(fo, ext_j5pb.E_Field, &ext_j5pb.FieldOptions{Type: &ext_j5pb.FieldOptions_Key{Key: &ext_j5pb.KeyField{Type: &ext_j5pb.KeyField_Format_{Format: ext_j5pb.KeyField_FORMAT_UUID}}}})
				hasOpt = true
			}
			fd.Type = t.Enum()
			if tn != "" {
				fd.TypeName = proto.String(tn)
			}
			if hasOpt {
				fd.Options = fo
			}
			switch f.Label {
			case Repeated:
				fd.Label = descriptorpb.FieldDescriptorProto_LABEL_REPEATED.Enum()
			case Map:
				// map entry nested type
				entryName := upperFirst(camel(f.Name)) + "Entry"
				entry := &descriptorpb.DescriptorProto{
					Name:    proto.String(entryName),
					Options: &descriptorpb.MessageOptions{MapEntry: proto.Bool(true)},
					Field: []*descriptorpb.FieldDescriptorProto{
						{Name: proto.String("key"), Number: proto.Int32(1), JsonName: proto.String("key"), Label: descriptorpb.FieldDescriptorProto_LABEL_OPTIONAL.Enum(), Type: descriptorpb.FieldDescriptorProto_TYPE_STRING.Enum()},
						{Name: proto.String("value"), Number: proto.Int32(2), JsonName: proto.String("value"), Label: descriptorpb.FieldDescriptorProto_LABEL_OPTIONAL.Enum(), Type: fd.Type, TypeName: fd.TypeName},
					},
				}
				dp.NestedType = append(dp.NestedType, entry)
				fd.Label = descriptorpb.FieldDescriptorProto_LABEL_REPEATED.Enum()
				fd.Type = descriptorpb.FieldDescriptorProto_TYPE_MESSAGE.Enum()
				fd.TypeName = proto.String("." + s.Package + "." + m.Name + "." + entryName)
			}
			if m.IsOneof {
				fd.OneofIndex = proto.Int32(0)
			} else if f.Group != "" {
				fd.OneofIndex = proto.Int32(groups[f.Group])
			} else if f.PlainGroup != "" {
				fd.OneofIndex = proto.Int32(groups["plain:"+f.PlainGroup])
			}
			dp.Field = append(dp.Field, fd)
		}
		// proto3 optional: synthetic oneofs, declared after the real ones
		for i, f := range m.Fields {
			if f.Label == Optional && !m.IsOneof && f.Group == "" {
				dp.Field[i].Proto3Optional = proto.Bool(true)
				dp.Field[i].OneofIndex = proto.Int32(int32(len(dp.OneofDecl)))
				dp.OneofDecl = append(dp.OneofDecl, &descriptorpb.OneofDescriptorProto{Name: proto.String("_" + f.Name)})
			}
		}
		return dp
	}
	seen := map[*Message]bool{}
	var all []*Message
	var collect func(m *Message)
	collect = func(m *Message) {
		if m == nil || seen[m] {
			return
		}
		seen[m] = true
		all = append(all, m)
		for _, n := range m.Nested {
			collect(n)
		}
		for _, f := range m.Fields {
			collect(f.Msg)
		}
	}
	for _, m := range s.Messages {
		collect(m)
	}
	names := map[string]bool{}
	for _, m := range all {
		if names[m.Name] {
			return fmt.Errorf("duplicate message name %s", m.Name)
		}
		names[m.Name] = true
		fdp.MessageType = append(fdp.MessageType, addMsg(m))
	}
	fd, err := protodesc.NewFile(fdp, protoregistry.GlobalFiles)
	if err != nil {
		return fmt.Errorf("protodesc: %w", err)
	}
	s.File = fd
	s.Files = &protoregistry.Files{}
	if err := s.Files.RegisterFile(fd); err != nil {
		return err
	}
	s.Types = dynamicpb.NewTypes(s.Files)
	return nil
}

func (s *Schema) Desc(m *Message) protoreflect.MessageDescriptor {
	if s.Lookup != nil {
		return s.Lookup(m)
	}
	return s.File.Messages().ByName(protoreflect.Name(m.Name))
}

// Resolver resolves Any payload types: private types first, then global.
type Resolver struct{ S *Schema }

func (r Resolver) FindMessageByName(n protoreflect.FullName) (protoreflect.MessageType, error) {
	if mt, err := r.S.Types.FindMessageByName(n); err == nil {
		return mt, nil
	}
	return protoregistry.GlobalTypes.FindMessageByName(n)
}
