package gpb

import (
	"fmt"
	"math"
	"strings"

	"google.golang.org/protobuf/proto"
	"google.golang.org/protobuf/reflect/protoreflect"
	"google.golang.org/protobuf/types/dynamicpb"
)

// Val is an abstract element value.
type Val struct {
	Kind  Kind
	Str   string // string / key / decimal spelling
	Bool  bool
	Int   int64
	Uint  uint64
	Flt   float64
	Bytes []byte
	Y, M, D int32
	Sec   int64
	Nanos int32
	Enum  EnumVal
	Msg   *MsgVal
	// Any
	AnyType  string
	AnyJSON  []byte
	AnyProto []byte
	Label string // short description for ids
}

// FieldVal is the value of one field of a message.
type FieldVal struct {
	F    *Field
	Set  bool   // Single/Optional: present
	One  *Val   // Single/Optional
	List []*Val // Repeated
	Keys []string
	Vals []*Val // Map
}

type MsgVal struct {
	M      *Message
	Fields []*FieldVal // only the fields that carry something
}

func (mv *MsgVal) Get(name string) *FieldVal {
	for _, f := range mv.Fields {
		if f.F.Name == name {
			return f
		}
	}
	return nil
}

func lbl(v *Val, s string) *Val { v.Label = s; return v }

// ElemValues is the boundary alphabet of element values of a kind; the first
// value is always the zero value of the kind.
func ElemValues(f *Field) []*Val {
	k := f.Kind
	var out []*Val
	s := func(x string, l string) { out = append(out, lbl(&Val{Kind: k, Str: x}, l)) }
	i := func(x int64) { out = append(out, lbl(&Val{Kind: k, Int: x}, fmt.Sprint(x))) }
	u := func(x uint64) { out = append(out, lbl(&Val{Kind: k, Uint: x}, fmt.Sprint(x))) }
	fl := func(x float64) { out = append(out, lbl(&Val{Kind: k, Flt: x}, fmt.Sprint(x))) }
	switch k {
	case KString:
		s("", "empty")
		s("abc", "ascii")
		s("q\"b\\s/\b\f\n\r\t", "escapes")
		s("\x00\x1f\x7f", "controls")
		s("\x01\x02\x03\x04\x05\x06\x07\x0b\x0e\x0f\x10\x11\x12\x13\x14\x15\x16\x17\x18\x19\x1a\x1b\x1c\x1d\x1e", "all-controls")
		s("\x0bf \x0ea \x0f0", "control-then-hex")
		s("\u2028\u2029", "linesep")
		s("é日😀", "utf8-2-3-4")
		s("<>&", "html")
		s("!type", "bangtype")
	case KKey:
		s("", "empty")
		s("k1", "plain")
		s("a b/c", "spaced")
	case KKeyID62:
		s("", "empty")
		s("0000000000000000000001", "id62")
	case KKeyUUID:
		s("", "empty")
		s("123e4567-e89b-12d3-a456-426614174000", "uuid")
	case KBool:
		out = append(out, lbl(&Val{Kind: k, Bool: false}, "false"), lbl(&Val{Kind: k, Bool: true}, "true"))
	case KInt32, KSint32:
		for _, x := range []int64{0, 1, -1, math.MaxInt32, math.MinInt32, math.MaxInt32 - 1, math.MinInt32 + 1} {
			i(x)
		}
	case KInt64, KSint64:
		for _, x := range []int64{0, 1, -1, math.MaxInt64, math.MinInt64, math.MaxInt64 - 1, math.MinInt64 + 1, 1 << 53, (1 << 53) + 1, math.MaxInt32 + 1} {
			i(x)
		}
	case KUint32:
		for _, x := range []uint64{0, 1, math.MaxUint32, math.MaxUint32 - 1, math.MaxInt32 + 1} {
			u(x)
		}
	case KUint64:
		for _, x := range []uint64{0, 1, math.MaxUint64, math.MaxUint64 - 1, math.MaxInt64, math.MaxInt64 + 1, (1 << 53) + 1} {
			u(x)
		}
	case KFloat:
		for _, x := range []float64{0, 1.5, -1, 1e21, 1e-7, math.MaxFloat32, -math.MaxFloat32, math.SmallestNonzeroFloat32, float64(float32(0.1)), 16777217,
			// the two float32 values (of all 2^32, enumerated once) whose shortest decimal form, read as a
			// float64 and narrowed, is the neighbouring float32 (double rounding)
			float64(math.Float32frombits(363742205)), float64(math.Float32frombits(2511225853))} {
			fl(float64(float32(x)))
		}
	case KDouble:
		for _, x := range []float64{0, 1.5, -1, 1e21, 1e-7, math.MaxFloat64, -math.MaxFloat64, math.SmallestNonzeroFloat64, 0.1, 1e20, 123456789012345680} {
			fl(x)
		}
	case KBytes:
		for _, b := range [][]byte{{}, {0}, {0xff}, {0xfb, 0xff}, {0xfb, 0xef, 0xbe}, {1, 2, 3, 4}, {0xff, 0xfe, 0xfd, 0xfc, 0xfb}} {
			out = append(out, lbl(&Val{Kind: k, Bytes: b}, fmt.Sprintf("%x", b)))
		}
	case KDate:
		for _, d := range [][3]int32{{1, 1, 1}, {2024, 2, 29}, {9999, 12, 31}, {987, 6, 5}, {2000, 10, 10}} {
			out = append(out, lbl(&Val{Kind: k, Y: d[0], M: d[1], D: d[2]}, fmt.Sprintf("%d-%d-%d", d[0], d[1], d[2])))
		}
	case KDecimal:
		for _, d := range []string{"0", "1", "-1", "1.50", "0.000001", "1234567890123456789012345678901234567890.0123456789", "-0.5", "100"} {
			s(d, d)
		}
	case KTimestamp:
		for _, t := range []struct {
			s int64
			n int32
		}{{0, 0}, {0, 1}, {-1, 999999999}, {1700000000, 0}, {1700000000, 123000000}, {1700000000, 123456789}, {-62135596800, 0}, {253402300799, 999999999}, {-1, 0}} {
			out = append(out, lbl(&Val{Kind: k, Sec: t.s, Nanos: t.n}, fmt.Sprintf("%d.%09d", t.s, t.n)))
		}
	case KEnum:
		for _, e := range f.Enum.Values {
			out = append(out, lbl(&Val{Kind: k, Enum: e}, e.Short))
		}
	case KObject, KFlatten, KOneof:
		for _, mv := range MsgValues(f.Msg) {
			out = append(out, lbl(&Val{Kind: k, Msg: mv}, msgLabel(mv)))
		}
	case KJ5Any:
		out = append(out,
			lbl(&Val{Kind: k, AnyType: "vt.v1.Sub", AnyJSON: []byte(`{"sVal":"x","nVal":"5"}`)}, "sub"),
			lbl(&Val{Kind: k, AnyType: "vt.v1.Sub", AnyJSON: []byte(`{}`)}, "empty"),
			lbl(&Val{Kind: k, AnyType: "other.v1.Unknown", AnyJSON: []byte(`{"a":[1,"2",{"b":null}],"c":"é\"q"}`)}, "unknown-type"),
			lbl(&Val{Kind: k, AnyType: "vt.v1.Sub", AnyJSON: []byte("{\"sVal\":\"<tag> & \u2028\u2029 </tag>\"}")}, "html-and-line-separators"),
		)
	case KPbAny:
		out = append(out,
			lbl(&Val{Kind: k, AnyType: "vt.v1.Sub", AnyProto: []byte{0x0a, 0x01, 'x', 0x10, 0x05}}, "sub"),
			lbl(&Val{Kind: k, AnyType: "vt.v1.Sub", AnyProto: []byte{0x0a, 0x01, 'x'}}, "sub-s"),
			lbl(&Val{Kind: k, AnyType: "vt.v1.Sub", AnyProto: []byte{}}, "sub-empty"),
		)
	}
	return out
}

func msgLabel(mv *MsgVal) string {
	var parts []string
	for _, f := range mv.Fields {
		switch {
		case f.One != nil:
			parts = append(parts, f.F.Name+"="+f.One.Label)
		case f.List != nil:
			parts = append(parts, fmt.Sprintf("%s=[%d]", f.F.Name, len(f.List)))
		default:
			parts = append(parts, fmt.Sprintf("%s={%d}", f.F.Name, len(f.Keys)))
		}
	}
	return "{" + strings.Join(parts, ",") + "}"
}

// FieldValues enumerates the values of a field given its label: unset plus
// every element value (Single / Optional), the list shapes [] [v] [v,w] [v,v]
// (Repeated), the map shapes {} {"k":v} {"":v} {"a":v,"b":w} and an escaped
// key (Map).
func FieldValues(f *Field) []*FieldVal {
	ev := ElemValues(f)
	var out []*FieldVal
	switch f.Label {
	case Single, Optional:
		out = append(out, &FieldVal{F: f})
		for _, v := range ev {
			out = append(out, &FieldVal{F: f, Set: true, One: v})
		}
	case Repeated:
		out = append(out, &FieldVal{F: f, List: []*Val{}})
		for _, v := range ev {
			out = append(out, &FieldVal{F: f, List: []*Val{v}})
		}
		if len(ev) >= 2 {
			out = append(out, &FieldVal{F: f, List: []*Val{ev[1], ev[0]}}, &FieldVal{F: f, List: []*Val{ev[1], ev[1]}}, &FieldVal{F: f, List: []*Val{ev[0], ev[len(ev)-1], ev[1]}})
		}
	case Map:
		out = append(out, &FieldVal{F: f, Keys: []string{}, Vals: []*Val{}})
		for _, v := range ev {
			out = append(out, &FieldVal{F: f, Keys: []string{"k"}, Vals: []*Val{v}})
		}
		out = append(out, &FieldVal{F: f, Keys: []string{""}, Vals: []*Val{ev[len(ev)-1]}})
		if len(ev) >= 2 {
			out = append(out, &FieldVal{F: f, Keys: []string{"a", "b"}, Vals: []*Val{ev[1], ev[0]}})
		}
		out = append(out, &FieldVal{F: f, Keys: []string{"q\"k\\\n é", "!type"}, Vals: []*Val{ev[len(ev)-1], ev[0]}})
	}
	return out
}

// MsgValues enumerates the product of the field values of a message. For a
// oneof wrapper and for exposed oneof groups at most one member is set.
// deep=false restricts nested messages to a small set.
func MsgValues(m *Message) []*MsgVal {
	if m.IsOneof {
		out := []*MsgVal{{M: m}}
		for _, f := range m.Fields {
			for _, fv := range trim(m, FieldValues(f)) {
				if !fv.Set {
					continue
				}
				out = append(out, &MsgVal{M: m, Fields: []*FieldVal{fv}})
			}
		}
		return out
	}
	// group exposed-oneof members into one dimension
	type dim struct{ opts []*FieldVal }
	var dims []dim
	groups := map[string]int{}
	for _, f := range m.Fields {
		fvs := trim(m, FieldValues(f))
		if f.PlainGroup != "" {
			// at most one member of the proto oneof carries a value
			var set []*FieldVal
			for _, fv := range fvs {
				if fv.Set {
					set = append(set, fv)
				}
			}
			key := "plain:" + f.PlainGroup
			if gi, ok := groups[key]; ok {
				dims[gi].opts = append(dims[gi].opts, set...)
			} else {
				groups[key] = len(dims)
				dims = append(dims, dim{opts: append([]*FieldVal{{F: f}}, set...)})
			}
			continue
		}
		if f.Group != "" {
			var set []*FieldVal
			for _, fv := range fvs {
				if fv.Set {
					set = append(set, fv)
				}
			}
			if gi, ok := groups[f.Group]; ok {
				dims[gi].opts = append(dims[gi].opts, set...)
			} else {
				groups[f.Group] = len(dims)
				dims = append(dims, dim{opts: append([]*FieldVal{{F: f}}, set...)})
			}
			continue
		}
		dims = append(dims, dim{opts: fvs})
	}
	var out []*MsgVal
	var cur []*FieldVal
	var rec func(i int)
	rec = func(i int) {
		if i == len(dims) {
			mv := &MsgVal{M: m}
			for _, fv := range cur {
				if fv.Set || fv.List != nil || fv.Keys != nil {
					mv.Fields = append(mv.Fields, fv)
				}
			}
			out = append(out, mv)
			return
		}
		for _, o := range dims[i].opts {
			cur = append(cur, o)
			rec(i + 1)
			cur = cur[:len(cur)-1]
		}
	}
	rec(0)
	return out
}

// trim keeps the full alphabet for messages marked Full and three
// representatives (unset, first, last) otherwise.
func trim(m *Message, fvs []*FieldVal) []*FieldVal {
	if m.Full || len(fvs) <= 3 {
		return fvs
	}
	return []*FieldVal{fvs[0], fvs[1], fvs[len(fvs)-1]}
}

// ---- population of dynamic messages ----

func (s *Schema) NewMessage(mv *MsgVal) *dynamicpb.Message {
	md := s.Desc(mv.M)
	msg := dynamicpb.NewMessage(md)
	s.fill(msg, mv)
	return msg
}

func (s *Schema) fill(msg protoreflect.Message, mv *MsgVal) {
	md := msg.Descriptor()
	for _, fv := range mv.Fields {
		fd := md.Fields().ByName(protoreflect.Name(fv.F.Name))
		switch fv.F.Label {
		case Single, Optional:
			if !fv.Set {
				continue
			}
			if fd.Message() != nil {
				sub := msg.Mutable(fd).Message()
				s.fillVal(sub, fv.One)
			} else {
				msg.Set(fd, scalarValue(fd, fv.One))
			}
		case Repeated:
			if len(fv.List) == 0 {
				continue
			}
			l := msg.Mutable(fd).List()
			for _, v := range fv.List {
				if fd.Message() != nil {
					el := l.NewElement()
					s.fillVal(el.Message(), v)
					l.Append(el)
				} else {
					l.Append(scalarValue(fd, v))
				}
			}
		case Map:
			if len(fv.Keys) == 0 {
				continue
			}
			mp := msg.Mutable(fd).Map()
			for i, k := range fv.Keys {
				v := fv.Vals[i]
				vd := fd.MapValue()
				if vd.Message() != nil {
					el := mp.NewValue()
					s.fillVal(el.Message(), v)
					mp.Set(protoreflect.ValueOfString(k).MapKey(), el)
				} else {
					mp.Set(protoreflect.ValueOfString(k).MapKey(), scalarValue(vd, v))
				}
			}
		}
	}
}

func scalarValue(fd protoreflect.FieldDescriptor, v *Val) protoreflect.Value {
	switch v.Kind {
	case KString, KKey, KKeyID62, KKeyUUID:
		return protoreflect.ValueOfString(v.Str)
	case KBool:
		return protoreflect.ValueOfBool(v.Bool)
	case KInt32, KSint32:
		return protoreflect.ValueOfInt32(int32(v.Int))
	case KInt64, KSint64:
		return protoreflect.ValueOfInt64(v.Int)
	case KUint32:
		return protoreflect.ValueOfUint32(uint32(v.Uint))
	case KUint64:
		return protoreflect.ValueOfUint64(v.Uint)
	case KFloat:
		return protoreflect.ValueOfFloat32(float32(v.Flt))
	case KDouble:
		return protoreflect.ValueOfFloat64(v.Flt)
	case KBytes:
		return protoreflect.ValueOfBytes(v.Bytes)
	case KEnum:
		return protoreflect.ValueOfEnum(protoreflect.EnumNumber(v.Enum.Num))
	}
	panic("scalarValue: " + v.Kind.String())
}

func setByName(m protoreflect.Message, name string, v protoreflect.Value) {
	fd := m.Descriptor().Fields().ByName(protoreflect.Name(name))
	m.Set(fd, v)
}

func (s *Schema) fillVal(m protoreflect.Message, v *Val) {
	switch v.Kind {
	case KDate:
		if v.Y != 0 {
			setByName(m, "year", protoreflect.ValueOfInt32(v.Y))
		}
		if v.M != 0 {
			setByName(m, "month", protoreflect.ValueOfInt32(v.M))
		}
		if v.D != 0 {
			setByName(m, "day", protoreflect.ValueOfInt32(v.D))
		}
	case KDecimal:
		setByName(m, "value", protoreflect.ValueOfString(v.Str))
	case KTimestamp:
		if v.Sec != 0 {
			setByName(m, "seconds", protoreflect.ValueOfInt64(v.Sec))
		}
		if v.Nanos != 0 {
			setByName(m, "nanos", protoreflect.ValueOfInt32(v.Nanos))
		}
	case KJ5Any:
		setByName(m, "type_name", protoreflect.ValueOfString(v.AnyType))
		if v.AnyJSON != nil {
			setByName(m, "j5_json", protoreflect.ValueOfBytes(v.AnyJSON))
		}
		if v.AnyProto != nil {
			setByName(m, "proto", protoreflect.ValueOfBytes(v.AnyProto))
		}
	case KPbAny:
		setByName(m, "type_url", protoreflect.ValueOfString("type.googleapis.com/"+v.AnyType))
		setByName(m, "value", protoreflect.ValueOfBytes(v.AnyProto))
	case KObject, KFlatten, KOneof:
		s.fill(m, v.Msg)
	default:
		panic("fillVal: " + v.Kind.String())
	}
}

var _ = proto.Equal
