package gpb

import (
	"bytes"
	"encoding/base64"
	"encoding/json"
	"fmt"
	"math/big"
	"regexp"
	"sort"
	"strconv"
	"strings"
	"time"
	"unicode/utf8"
)

// ---------- strict JSON tree (keeps number / string distinction) ----------

type J struct {
	T   byte // o a s n t f z
	Mem []JM
	Arr []*J
	S   string // decoded string, or raw number text
}

type JM struct {
	K string
	V *J
}

// ParseJSON parses exactly one JSON value followed only by white space.
func ParseJSON(b []byte) (*J, error) {
	if !utf8.Valid(b) {
		return nil, fmt.Errorf("output is not valid UTF-8")
	}
	if !json.Valid(b) {
		return nil, fmt.Errorf("not a single well-formed JSON value")
	}
	dec := json.NewDecoder(bytes.NewReader(b))
	dec.UseNumber()
	v, err := parseJ(dec)
	if err != nil {
		return nil, err
	}
	if _, err := dec.Token(); err == nil {
		return nil, fmt.Errorf("trailing data after the JSON value")
	}
	return v, nil
}

func parseJ(dec *json.Decoder) (*J, error) {
	tok, err := dec.Token()
	if err != nil {
		return nil, err
	}
	switch t := tok.(type) {
	case json.Delim:
		switch t {
		case '{':
			o := &J{T: 'o'}
			for dec.More() {
				kt, err := dec.Token()
				if err != nil {
					return nil, err
				}
				k, ok := kt.(string)
				if !ok {
					return nil, fmt.Errorf("non-string key")
				}
				v, err := parseJ(dec)
				if err != nil {
					return nil, err
				}
				o.Mem = append(o.Mem, JM{k, v})
			}
			if _, err := dec.Token(); err != nil {
				return nil, err
			}
			return o, nil
		case '[':
			a := &J{T: 'a'}
			for dec.More() {
				v, err := parseJ(dec)
				if err != nil {
					return nil, err
				}
				a.Arr = append(a.Arr, v)
			}
			if _, err := dec.Token(); err != nil {
				return nil, err
			}
			return a, nil
		}
		return nil, fmt.Errorf("unexpected delimiter %v", t)
	case string:
		return &J{T: 's', S: t}, nil
	case json.Number:
		return &J{T: 'n', S: string(t)}, nil
	case bool:
		if t {
			return &J{T: 't'}, nil
		}
		return &J{T: 'f'}, nil
	case nil:
		return &J{T: 'z'}, nil
	}
	return nil, fmt.Errorf("unexpected token %T", tok)
}

func (j *J) String() string {
	switch j.T {
	case 'o':
		var p []string
		for _, m := range j.Mem {
			p = append(p, strconv.Quote(m.K)+":"+m.V.String())
		}
		return "{" + strings.Join(p, ",") + "}"
	case 'a':
		var p []string
		for _, m := range j.Arr {
			p = append(p, m.String())
		}
		return "[" + strings.Join(p, ",") + "]"
	case 's':
		return strconv.Quote(j.S)
	case 'n':
		return j.S
	case 't':
		return "true"
	case 'f':
		return "false"
	}
	return "null"
}

// ---------- Spec: the expected J5 JSON of a message ----------

type SpecT int

const (
	SObj SpecT = iota // plain object (members = properties, flattened ones inlined)
	SOneof            // {"!type": arm, arm: value} or {}
	SAny              // {"!type": name, "value": raw}
	SArr
	SMap
	SLeaf
)

type Spec struct {
	T    SpecT
	Mem  []SpecMem // SObj / SOneof / SMap (ordered as declared; compared as sets)
	Arr  []*Spec
	Leaf *Val // SLeaf: the element value (kind decides the representation)
	Any  *Val
	F    *Field // field this value belongs to (nil at root)
	M    *Message
}

type SpecMem struct {
	K string
	V *Spec
}

// RefEncode is the reference encoder: message value -> expected document.
func RefEncode(mv *MsgVal) *Spec {
	if mv.M.IsOneof {
		return refOneof(mv, nil)
	}
	return refObject(mv, nil)
}

func refObject(mv *MsgVal, f *Field) *Spec {
	sp := &Spec{T: SObj, F: f, M: mv.M}
	groups := map[string]bool{}
	// members in declaration order
	for _, fd := range mv.M.Fields {
		fv := mv.Get(fd.Name)
		if fd.Group != "" {
			if groups[fd.Group] {
				continue
			}
			groups[fd.Group] = true
			// find the set member of the group
			var set *FieldVal
			for _, g := range mv.M.Fields {
				if g.Group == fd.Group {
					if x := mv.Get(g.Name); x != nil && x.Set {
						set = x
					}
				}
			}
			if set == nil {
				continue
			}
			one := &Spec{T: SOneof, F: fd, Mem: []SpecMem{{set.F.JSON, refVal(set.One, set.F)}}}
			sp.Mem = append(sp.Mem, SpecMem{camel(fd.Group), one})
			continue
		}
		if fv == nil {
			continue
		}
		switch fd.Label {
		case Single, Optional:
			if !fv.Set {
				continue
			}
			if fd.Label == Single && isZeroScalar(fv.One) {
				continue // proto3 implicit presence: the zero value is "unset"
			}
			if fd.Kind == KFlatten {
				inner := refObject(fv.One.Msg, fd)
				sp.Mem = append(sp.Mem, inner.Mem...)
				continue
			}
			sp.Mem = append(sp.Mem, SpecMem{fd.JSON, refVal(fv.One, fd)})
		case Repeated:
			if len(fv.List) == 0 {
				continue
			}
			arr := &Spec{T: SArr, F: fd}
			for _, v := range fv.List {
				arr.Arr = append(arr.Arr, refVal(v, fd))
			}
			sp.Mem = append(sp.Mem, SpecMem{fd.JSON, arr})
		case Map:
			if len(fv.Keys) == 0 {
				continue
			}
			mp := &Spec{T: SMap, F: fd}
			for i, k := range fv.Keys {
				mp.Mem = append(mp.Mem, SpecMem{k, refVal(fv.Vals[i], fd)})
			}
			sp.Mem = append(sp.Mem, SpecMem{fd.JSON, mp})
		}
	}
	return sp
}

func refOneof(mv *MsgVal, f *Field) *Spec {
	sp := &Spec{T: SOneof, F: f, M: mv.M}
	for _, fv := range mv.Fields {
		if fv.Set {
			sp.Mem = append(sp.Mem, SpecMem{fv.F.JSON, refVal(fv.One, fv.F)})
		}
	}
	return sp
}

func refVal(v *Val, f *Field) *Spec {
	switch v.Kind {
	case KObject, KFlatten:
		return refObject(v.Msg, f)
	case KOneof:
		return refOneof(v.Msg, f)
	case KJ5Any, KPbAny:
		return &Spec{T: SAny, Any: v, F: f}
	}
	return &Spec{T: SLeaf, Leaf: v, F: f}
}

func isZeroScalar(v *Val) bool {
	switch v.Kind {
	case KString, KKey, KKeyID62, KKeyUUID:
		return v.Str == ""
	case KBool:
		return !v.Bool
	case KInt32, KSint32, KInt64, KSint64:
		return v.Int == 0
	case KUint32, KUint64:
		return v.Uint == 0
	case KFloat, KDouble:
		return v.Flt == 0
	case KBytes:
		return len(v.Bytes) == 0
	case KEnum:
		return v.Enum.Num == 0
	}
	return false
}

// ---------- matching an actual document against the Spec ----------

var reDate = regexp.MustCompile(`^\d{4}-\d{2}-\d{2}$`)
var reTS = regexp.MustCompile(`^\d{4}-\d{2}-\d{2}T\d{2}:\d{2}:\d{2}(\.\d+)?Z$`)
var reInt = regexp.MustCompile(`^-?(0|[1-9]\d*)$`)
var reDec = regexp.MustCompile(`^-?\d+(\.\d+)?$`)

type Mismatch struct {
	Path   string
	Clause string // structural class of the mismatch, for signatures
	Msg    string
}

func (m *Mismatch) Error() string { return m.Path + ": " + m.Msg }

func mm(path, clause, format string, a ...any) *Mismatch {
	return &Mismatch{Path: path, Clause: clause, Msg: fmt.Sprintf(format, a...)}
}

// Match checks the documented wire format: member sets exact (unset omitted,
// flattened inlined, JSON names), oneof = "!type" + exactly the named key, any
// = "!type" + "value", and each leaf in its documented representation.
func Match(sp *Spec, j *J, path string) *Mismatch {
	switch sp.T {
	case SObj, SMap:
		if j.T != 'o' {
			return mm(path, "object-expected", "expected an object, got %s", j)
		}
		want := map[string]*Spec{}
		for _, m := range sp.Mem {
			want[m.K] = m.V
		}
		seen := map[string]bool{}
		for _, m := range j.Mem {
			if seen[m.K] {
				return mm(path, "duplicate-member", "member %q emitted twice", m.K)
			}
			seen[m.K] = true
			w, ok := want[m.K]
			if !ok {
				return mm(path, "unexpected-member", "unexpected member %q = %s (expected members: %v)", m.K, m.V, keys(want))
			}
			if e := Match(w, m.V, path+"."+m.K); e != nil {
				return e
			}
		}
		for k := range want {
			if !seen[k] {
				return mm(path, "missing-member", "member %q is missing (got %s)", k, j)
			}
		}
		return nil
	case SOneof:
		if j.T != 'o' {
			return mm(path, "oneof-object-expected", "expected a oneof object, got %s", j)
		}
		if len(sp.Mem) == 0 {
			if len(j.Mem) != 0 {
				return mm(path, "oneof-empty-expected", "expected {} for an unset oneof, got %s", j)
			}
			return nil
		}
		arm := sp.Mem[0]
		if len(j.Mem) != 2 {
			return mm(path, "oneof-members", "a oneof must be {\"!type\", %q}, got %s", arm.K, j)
		}
		var ty, val *J
		for _, m := range j.Mem {
			switch m.K {
			case "!type":
				ty = m.V
			case arm.K:
				val = m.V
			}
		}
		if ty == nil || val == nil {
			return mm(path, "oneof-members", "a oneof must be {\"!type\", %q}, got %s", arm.K, j)
		}
		if ty.T != 's' || ty.S != arm.K {
			return mm(path, "oneof-type", "\"!type\" must be %q, got %s", arm.K, ty)
		}
		return Match(arm.V, val, path+"."+arm.K)
	case SAny:
		if j.T != 'o' || len(j.Mem) != 2 {
			return mm(path, "any-members", "an Any must be {\"!type\",\"value\"}, got %s", j)
		}
		var ty, val *J
		for _, m := range j.Mem {
			switch m.K {
			case "!type":
				ty = m.V
			case "value":
				val = m.V
			}
		}
		if ty == nil || val == nil {
			return mm(path, "any-members", "an Any must be {\"!type\",\"value\"}, got %s", j)
		}
		if ty.T != 's' || ty.S != sp.Any.AnyType {
			return mm(path, "any-type", "Any \"!type\" must be %q, got %s", sp.Any.AnyType, ty)
		}
		if sp.Any.AnyJSON != nil {
			want, err := ParseJSON(sp.Any.AnyJSON)
			if err == nil && want.String() != val.String() {
				return mm(path, "any-value", "Any value must be %s, got %s", want, val)
			}
		} else if val.T != 'o' {
			return mm(path, "any-value", "Any value must be an object, got %s", val)
		}
		return nil
	case SArr:
		if j.T != 'a' {
			return mm(path, "array-expected", "expected an array, got %s", j)
		}
		if len(j.Arr) != len(sp.Arr) {
			return mm(path, "array-length", "expected %d elements, got %s", len(sp.Arr), j)
		}
		for i, e := range sp.Arr {
			if m := Match(e, j.Arr[i], fmt.Sprintf("%s[%d]", path, i)); m != nil {
				return m
			}
		}
		return nil
	}
	return matchLeaf(sp.Leaf, j, path)
}

func keys(m map[string]*Spec) []string {
	var k []string
	for x := range m {
		k = append(k, x)
	}
	sort.Strings(k)
	return k
}

func matchLeaf(v *Val, j *J, path string) *Mismatch {
	kn := v.Kind.String()
	wantStr := func() *Mismatch {
		if j.T != 's' {
			return mm(path, kn+"-must-be-string", "%s must be a JSON string, got %s", kn, j)
		}
		return nil
	}
	wantNum := func() *Mismatch {
		if j.T != 'n' {
			return mm(path, kn+"-must-be-bare-number", "%s must be a bare JSON number, got %s", kn, j)
		}
		return nil
	}
	switch v.Kind {
	case KString, KKey, KKeyID62, KKeyUUID:
		if e := wantStr(); e != nil {
			return e
		}
		if j.S != v.Str {
			return mm(path, kn+"-value", "string %q expected, got %q", v.Str, j.S)
		}
	case KBool:
		if (j.T != 't' && j.T != 'f') || (j.T == 't') != v.Bool {
			return mm(path, "bool-literal", "bare %v expected, got %s", v.Bool, j)
		}
	case KInt32, KSint32, KUint32:
		if e := wantNum(); e != nil {
			return e
		}
		want := big.NewInt(v.Int)
		if v.Kind == KUint32 {
			want = new(big.Int).SetUint64(v.Uint)
		}
		r, ok := new(big.Rat).SetString(j.S)
		if !ok || !r.IsInt() || r.Num().Cmp(want) != 0 {
			return mm(path, kn+"-value", "number %s expected, got %s", want, j.S)
		}
	case KInt64, KSint64, KUint64:
		if e := wantStr(); e != nil {
			return e
		}
		want := big.NewInt(v.Int)
		if v.Kind == KUint64 {
			want = new(big.Int).SetUint64(v.Uint)
		}
		if !reInt.MatchString(j.S) {
			return mm(path, kn+"-digits", "quoted decimal integer expected, got %q", j.S)
		}
		got, _ := new(big.Int).SetString(j.S, 10)
		if got.Cmp(want) != 0 {
			return mm(path, kn+"-value", "quoted %s expected, got %q", want, j.S)
		}
	case KFloat, KDouble:
		if e := wantNum(); e != nil {
			return e
		}
		bits := 64
		if v.Kind == KFloat {
			bits = 32
		}
		got, err := strconv.ParseFloat(j.S, bits)
		if err != nil || got != v.Flt {
			return mm(path, kn+"-value", "number denoting %v expected, got %s", v.Flt, j.S)
		}
	case KBytes:
		if e := wantStr(); e != nil {
			return e
		}
		if want := base64.StdEncoding.EncodeToString(v.Bytes); j.S != want {
			return mm(path, "bytes-base64", "padded standard base64 %q expected, got %q", want, j.S)
		}
	case KDate:
		if e := wantStr(); e != nil {
			return e
		}
		if !reDate.MatchString(j.S) {
			return mm(path, "date-format", "zero-padded YYYY-MM-DD expected, got %q", j.S)
		}
		if want := fmt.Sprintf("%04d-%02d-%02d", v.Y, v.M, v.D); j.S != want {
			return mm(path, "date-value", "%q expected, got %q", want, j.S)
		}
	case KDecimal:
		if e := wantStr(); e != nil {
			return e
		}
		if !reDec.MatchString(j.S) {
			return mm(path, "decimal-format", "quoted decimal numeral expected, got %q", j.S)
		}
		a, _ := new(big.Rat).SetString(j.S)
		b, _ := new(big.Rat).SetString(v.Str)
		if a == nil || b == nil || a.Cmp(b) != 0 {
			return mm(path, "decimal-value", "decimal %s expected, got %q", v.Str, j.S)
		}
	case KTimestamp:
		if e := wantStr(); e != nil {
			return e
		}
		if !reTS.MatchString(j.S) {
			return mm(path, "timestamp-format", "RFC 3339 in UTC (…Z) expected, got %q", j.S)
		}
		got, err := time.Parse(time.RFC3339Nano, j.S)
		want := time.Unix(v.Sec, int64(v.Nanos)).UTC()
		if err != nil || !got.Equal(want) {
			return mm(path, "timestamp-value", "instant %s expected, got %q", want.Format(time.RFC3339Nano), j.S)
		}
	case KEnum:
		if e := wantStr(); e != nil {
			return e
		}
		if j.S != v.Enum.Short {
			return mm(path, "enum-name", "short option name %q expected, got %q", v.Enum.Short, j.S)
		}
	default:
		return mm(path, "internal", "unexpected leaf kind %s", kn)
	}
	return nil
}

// ---------- canonical rendering with spelling variations (C03) ----------

// RenderOpts selects one spelling variation at one leaf (by index in
// depth-first order), or none.
type RenderOpts struct {
	Target  int    // leaf / node index to vary, -1 none
	Variant string // name of the variation
	WS      bool   // insignificant white space around every token
	Reverse bool   // reverse member order of every object
	Nulls   bool   // add an explicit null for every absent member of every object
	Raw     string // Variant "raw": replace the target node by this text; "addmember": add this member text to the target object
	counter int
	Applied bool
}

func (o *RenderOpts) next() int { o.counter++; return o.counter - 1 }

func quoteJSON(s string) string {
	b, _ := json.Marshal(s)
	return string(b)
}

// LeafVariants lists the documented alternate spellings applicable to a leaf.
func LeafVariants(v *Val) []string {
	switch v.Kind {
	case KInt32, KSint32, KUint32, KFloat, KDouble:
		return []string{"quoted"}
	case KInt64, KSint64, KUint64, KDecimal:
		return []string{"bare"}
	case KBytes:
		return []string{"b64-url", "b64-std-nopad", "b64-url-nopad"}
	case KEnum:
		if v.Enum.Shadowed {
			return nil
		}
		return []string{"enum-prefixed"}
	case KTimestamp:
		// offsets that would push the local year outside 0000-9999 have no RFC 3339 spelling
		out := []string{"ts-+00:00"}
		t := time.Unix(v.Sec, int64(v.Nanos)).UTC()
		if y := t.In(time.FixedZone("", 5*3600+1800)).Year(); y >= 0 && y <= 9999 {
			out = append(out, "ts-+05:30")
		}
		if y := t.In(time.FixedZone("", -8*3600)).Year(); y >= 1 && y <= 9999 {
			out = append(out, "ts--08:00")
		}
		return out
	}
	return nil
}

func renderLeaf(v *Val, variant string, f *Field) string {
	switch v.Kind {
	case KString, KKey, KKeyID62, KKeyUUID:
		return quoteJSON(v.Str)
	case KBool:
		return strconv.FormatBool(v.Bool)
	case KInt32, KSint32, KInt64, KSint64:
		s := strconv.FormatInt(v.Int, 10)
		q := v.Kind == KInt64 || v.Kind == KSint64
		if variant == "quoted" || (q && variant != "bare") {
			return `"` + s + `"`
		}
		return s
	case KUint32, KUint64:
		s := strconv.FormatUint(v.Uint, 10)
		q := v.Kind == KUint64
		if variant == "quoted" || (q && variant != "bare") {
			return `"` + s + `"`
		}
		return s
	case KFloat, KDouble:
		bits := 64
		if v.Kind == KFloat {
			bits = 32
		}
		s := strconv.FormatFloat(v.Flt, 'g', -1, bits)
		if variant == "quoted" {
			return `"` + s + `"`
		}
		return s
	case KBytes:
		switch variant {
		case "b64-url":
			return quoteJSON(base64.URLEncoding.EncodeToString(v.Bytes))
		case "b64-std-nopad":
			return quoteJSON(base64.RawStdEncoding.EncodeToString(v.Bytes))
		case "b64-url-nopad":
			return quoteJSON(base64.RawURLEncoding.EncodeToString(v.Bytes))
		}
		return quoteJSON(base64.StdEncoding.EncodeToString(v.Bytes))
	case KDate:
		return quoteJSON(fmt.Sprintf("%04d-%02d-%02d", v.Y, v.M, v.D))
	case KDecimal:
		if variant == "bare" {
			return v.Str
		}
		return quoteJSON(v.Str)
	case KTimestamp:
		t := time.Unix(v.Sec, int64(v.Nanos)).UTC()
		switch variant {
		case "ts-+00:00":
			return quoteJSON(strings.Replace(t.Format(time.RFC3339Nano), "Z", "+00:00", 1))
		case "ts-+05:30":
			return quoteJSON(t.In(time.FixedZone("", 5*3600+1800)).Format(time.RFC3339Nano))
		case "ts--08:00":
			return quoteJSON(t.In(time.FixedZone("", -8*3600)).Format(time.RFC3339Nano))
		}
		return quoteJSON(t.Format(time.RFC3339Nano))
	case KEnum:
		if variant == "enum-prefixed" {
			return quoteJSON(f.Enum.Prefix + v.Enum.Short)
		}
		return quoteJSON(v.Enum.Short)
	}
	panic("renderLeaf " + v.Kind.String())
}

// Render writes the canonical document of a Spec, applying o's variation.
func Render(sp *Spec, o *RenderOpts) string {
	var sb strings.Builder
	render(&sb, sp, o)
	return sb.String()
}

func render(sb *strings.Builder, sp *Spec, o *RenderOpts) {
	idx := o.next()
	isTarget := idx == o.Target
	if isTarget && o.Variant == "raw" {
		o.Applied = true
		sb.WriteString(o.Raw)
		return
	}
	ws := func() {
		if o.WS {
			sb.WriteString(" \n\t")
		}
	}
	mems := func(ms []SpecMem, pre []string) {
		parts := append([]string{}, pre...)
		if isTarget && o.Variant == "addmember" {
			o.Applied = true
			defer func() {}()
		}
		for _, m := range ms {
			var b strings.Builder
			if o.WS {
				b.WriteString(" ")
			}
			b.WriteString(quoteJSON(m.K))
			if o.WS {
				b.WriteString(" \n")
			}
			b.WriteString(":")
			if o.WS {
				b.WriteString("\t ")
			}
			render(&b, m.V, o)
			parts = append(parts, b.String())
		}
		if isTarget && o.Variant == "addmember" {
			parts = append(parts, o.Raw)
		}
		if o.Nulls && sp.T == SObj && sp.M != nil {
			parts = append(parts, absentNulls(sp)...)
		}
		if o.Reverse {
			for i, j := 0, len(parts)-1; i < j; i, j = i+1, j-1 {
				parts[i], parts[j] = parts[j], parts[i]
			}
		}
		ws()
		sb.WriteString("{")
		sb.WriteString(strings.Join(parts, ","))
		ws()
		sb.WriteString("}")
		ws()
	}
	switch sp.T {
	case SObj, SMap:
		mems(sp.Mem, nil)
	case SOneof:
		if len(sp.Mem) == 0 {
			mems(nil, nil)
			return
		}
		mems(sp.Mem, []string{`"!type":` + quoteJSON(sp.Mem[0].K)})
	case SAny:
		raw := sp.Any.AnyJSON
		if raw == nil {
			raw = []byte("{}")
		}
		parts := []string{`"!type":` + quoteJSON(sp.Any.AnyType), `"value":` + string(raw)}
		if o.Reverse {
			parts[0], parts[1] = parts[1], parts[0]
		}
		sb.WriteString("{" + strings.Join(parts, ",") + "}")
	case SArr:
		ws()
		sb.WriteString("[")
		for i, e := range sp.Arr {
			if i > 0 {
				sb.WriteString(",")
			}
			render(sb, e, o)
		}
		sb.WriteString("]")
		ws()
	case SLeaf:
		variant := ""
		if isTarget {
			variant = o.Variant
			o.Applied = true
		}
		ws()
		sb.WriteString(renderLeaf(sp.Leaf, variant, sp.F))
		ws()
	}
}

// absentNulls lists `"name":null` for every property of the object that the
// document does not carry (flattened members are looked through).
func absentNulls(sp *Spec) []string {
	have := map[string]bool{}
	for _, m := range sp.Mem {
		have[m.K] = true
	}
	var out []string
	var rec func(m *Message)
	rec = func(m *Message) {
		groups := map[string]bool{}
		for _, f := range m.Fields {
			if f.Kind == KFlatten {
				rec(f.Msg)
				continue
			}
			name := f.JSON
			if f.Group != "" {
				name = camel(f.Group)
				if groups[name] {
					continue
				}
				groups[name] = true
			}
			if !have[name] {
				have[name] = true
				out = append(out, quoteJSON(name)+":null")
			}
		}
	}
	rec(sp.M)
	return out
}

// Nodes returns every node of a Spec in rendering (depth-first) order; the
// index of a node is its RenderOpts.Target.
func Nodes(sp *Spec) []*Spec {
	var out []*Spec
	var rec func(s *Spec)
	rec = func(s *Spec) {
		out = append(out, s)
		switch s.T {
		case SObj, SMap, SOneof:
			for _, m := range s.Mem {
				rec(m.V)
			}
		case SArr:
			for _, e := range s.Arr {
				rec(e)
			}
		}
	}
	rec(sp)
	return out
}

// Leaves returns the leaves of a Spec in rendering order.
func Leaves(sp *Spec) []*Spec {
	var out []*Spec
	var rec func(s *Spec)
	rec = func(s *Spec) {
		switch s.T {
		case SObj, SMap, SOneof:
			for _, m := range s.Mem {
				rec(m.V)
			}
		case SArr:
			for _, e := range s.Arr {
				rec(e)
			}
		case SLeaf:
			out = append(out, s)
		}
	}
	rec(sp)
	return out
}
