package main

import (
	"fmt"
	"os"
	"time"

	"github.com/pentops/j5/internal/zzverif/gpb"
	"github.com/pentops/j5/lib/j5codec"
	"google.golang.org/protobuf/types/dynamicpb"
)

func main() {
	root := &gpb.Message{Name: "T", Fields: []*gpb.Field{gpb.F("amount", 1, gpb.KDecimal, gpb.Single)}}
	s := &gpb.Schema{Messages: []*gpb.Message{root}, Root: root}
	if err := s.Build(); err != nil {
		panic(err)
	}
	codec := j5codec.NewCodec()
	for _, doc := range os.Args[1:] {
		msg := dynamicpb.NewMessage(s.Desc(root))
		t0 := time.Now()
		err := codec.JSONToProto([]byte(doc), msg)
		fmt.Printf("%s: %v err=%v\n", doc, time.Since(t0), err != nil)
		out, err := codec.ProtoToJSON(msg)
		fmt.Printf("  encode: %d bytes err=%v\n", len(out), err)
	}
}
