package main

import (
	"fmt"
	"strings"
	"time"

	"github.com/pentops/j5/internal/zzverif/gpb"
	"github.com/pentops/j5/lib/j5codec"
	"google.golang.org/protobuf/types/dynamicpb"
)

func main() {
	rec := &gpb.Message{Name: "Rec"}
	ff := gpb.F("f", 1, gpb.KObject, gpb.Single)
	ff.Msg = rec
	rec.Fields = []*gpb.Field{ff, gpb.F("s", 6, gpb.KString, gpb.Single)}
	s := &gpb.Schema{Messages: []*gpb.Message{rec}, Root: rec, Enums: []*gpb.Enum{gpb.DefaultEnum}}
	if err := s.Build(); err != nil {
		panic(err)
	}
	codec := j5codec.NewCodec()
	for _, d := range []int{1000, 5000, 10000, 20000, 40000} {
		for _, closed := range []bool{true, false} {
			doc := strings.Repeat(`{"f":`, d) + `{}`
			if closed {
				doc += strings.Repeat(`}`, d)
			}
			msg := dynamicpb.NewMessage(s.Desc(rec))
			t0 := time.Now()
			err := codec.JSONToProto([]byte(doc), msg)
			e := ""
			if err != nil {
				e = err.Error()
				if len(e) > 60 {
					e = e[:60]
				}
			}
			fmt.Printf("depth %d closed %v: %v  err=%s\n", d, closed, time.Since(t0), e)
		}
	}
}
