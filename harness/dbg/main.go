package main

import (
	"fmt"

	"github.com/pentops/j5/internal/zzverif/gj5s"
	"github.com/pentops/j5/lib/j5codec"
	"google.golang.org/protobuf/proto"
	"google.golang.org/protobuf/reflect/protoreflect"
	"google.golang.org/protobuf/types/dynamicpb"
)

func main() {
	gj5s.Silence()
	b := gj5s.NewBundle()
	b.Add("t/v1/a.j5s", "package t.v1\n\nobject Foo {\n\tfield when timestamp\n\tfield amount decimal\n\tfield day date\n}\n")
	files, err := b.Compile("t.v1")
	if err != nil {
		panic(err)
	}
	var fds []protoreflect.FileDescriptor
	for _, f := range files {
		fds = append(fds, f)
	}
	reg, err := gj5s.Relink(fds)
	if err != nil {
		panic(err)
	}
	d, _ := reg.FindDescriptorByName("t.v1.Foo")
	md := d.(protoreflect.MessageDescriptor)
	codec := j5codec.NewCodec()
	msg := dynamicpb.NewMessage(md)
	err = codec.JSONToProto([]byte(`{"when":"2024-01-02T03:04:05Z","amount":"1.5","day":"2024-02-03"}`), msg)
	fmt.Println("decode err:", err)
	bb, err := proto.Marshal(msg)
	fmt.Println("marshal:", len(bb), err)
	msg2 := dynamicpb.NewMessage(md)
	fmt.Println("unmarshal:", proto.Unmarshal(bb, msg2))
	fmt.Println("equal(decoded, reparsed):", proto.Equal(msg, msg2))
	out, err := codec.ProtoToJSON(msg2)
	fmt.Println("encode reparsed:", string(out), err)
	func() {
		defer func() { fmt.Println("clone panic:", recover()) }()
		_ = proto.Clone(msg)
	}()
}
