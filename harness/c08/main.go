// C08: encoder emits well-formed JSON in the documented J5 wire format.
package main

import (
	"strings"
	"fmt"
	"math"

	"github.com/pentops/j5/internal/zzverif/gbridge"
	"github.com/pentops/j5/internal/zzverif/gj5s"
	"github.com/pentops/j5/internal/zzverif/gpb"
	"github.com/pentops/j5/internal/zzverif/vk"
	"github.com/pentops/j5/lib/j5codec"
	"google.golang.org/protobuf/encoding/prototext"
	"google.golang.org/protobuf/reflect/protoreflect"
	"google.golang.org/protobuf/types/dynamicpb"
)

func main() {
	vk.Main(&vk.Check{
		ID:   "C08",
		Rule: "same enumeration as C01 (every kind x label x context single-field schema and every ordered pair over the reduced alphabet, every message in the product of the boundary value alphabets); each encoding is re-read with a strict tokenizer (single value, no trailing data, number/string distinction kept) and matched against the reference encoder written from README 'Scalar Types' and the documented oneof/any/flatten rules; plus non-representable values (NaN, +-Inf, year 0 / 10000, month 13, day 0, nanos out of range, undefined enum number) for which the encoder must fail or still emit valid JSON; distinct by (schema id, message text); non-trivial = message with at least one populated field",
		Assumptions: []string{
			"object member order and the digits of a float literal are not constrained (the documentation fixes quoting and member sets, not order or digits)",
			"Any payloads: j5 Any value compared as a JSON value with the stored j5_json; google.protobuf.Any payload only required to be an object",
		},
		Bounds:         map[string]any{"kinds": len(gpb.AllKinds()), "contexts": gpb.Contexts, "pair_kinds": len(gpb.PairKinds)},
		Isolate:        true,
		QuickBudget:    900,
		ThoroughBudget: 3600,
		Run:            run,
	})
}

func hasKind(m *gpb.Message, k gpb.Kind, seen map[*gpb.Message]bool) bool {
	if m == nil || seen[m] {
		return false
	}
	seen[m] = true
	for _, f := range m.Fields {
		if f.Kind == k || hasKind(f.Msg, k, seen) {
			return true
		}
	}
	return false
}

func run(r *vk.Runner) {
	cases := gpb.SingleFieldCases()
	cases = append(cases, gpb.PairCases()...)
	gj5s.Silence()
	if r.Quick() {
		cases = append(cases, gbridge.Cases(gbridge.Programs())...)
		cases = append(cases, gpb.DeepQuickCases()...)
	} else {
		cases = append(cases, gbridge.Cases(gbridge.ThoroughPrograms())...)
		cases = append(cases, gpb.DeepCases()...)
	}
	for _, c := range cases {
		if r.Stopped() {
			return
		}
		if err := c.Schema.Build(); err != nil {
			panic(fmt.Sprintf("harness: schema %s does not build: %v", c.ID, err))
		}
		fam := "pairs"
		kind := "pair"
		if c.Under != nil {
			fam = "single-field"
			kind = c.Under.Kind.String()
		}
		if strings.HasPrefix(c.ID, "j5s/") {
			fam = "j5s-compiled"
			kind = "j5s:" + kind
		}
		if strings.HasPrefix(c.ID, "deep/") {
			fam = "deep"
		}
		r.Family("format:" + fam)
		var codec *j5codec.Codec
		var prevOut []byte // bytes returned by the previous call on this codec (must stay intact)
		var prevCopy, prevCase string
		for i, mv := range gpb.MsgValues(c.Schema.Root) {
			c, mv := c, mv
			if !r.Mine() {
				r.SkipCase()
				continue
			}
			if codec == nil {
				opts := []j5codec.CodecOption{j5codec.WithResolver(gpb.Resolver{S: c.Schema})}
				if hasKind(c.Schema.Root, gpb.KPbAny, map[*gpb.Message]bool{}) {
					opts = append(opts, j5codec.WithProtoToAny())
				}
				codec = j5codec.NewCodec(opts...)
			}
			r.Do(fmt.Sprintf("%s#%d", c.ID, i), func(t *vk.T) {
				t.Coord(c.Coord)
				msg := c.Schema.NewMessage(mv)
				txt := prototext.MarshalOptions{}.Format(msg)
				if len(mv.Fields) > 0 {
					t.Nontrivial()
				}
				t.Key(c.ID + "\x00" + txt)
				out, err := codec.ProtoToJSON(msg)
				t.Step()
				if err != nil {
					t.Class("encode-error")
					return // C01's business
				}
				// history oracle: a later call must not disturb the bytes returned by an earlier one
				if prevOut != nil && string(prevOut) != prevCopy {
					t.Violation("earlier-output-mutated|kind="+kind, fmt.Sprintf("the bytes returned for case %s changed after encoding the next message on the same codec\nwas: %s\nnow: %q", prevCase, prevCopy, prevOut), prevCase, prevCopy, string(prevOut))
					prevOut = nil
					return
				}
				prevOut, prevCopy, prevCase = out, string(out), t.CaseID
				j, err := gpb.ParseJSON(out)
				if err != nil {
					t.Violation("not-well-formed|kind="+kind, fmt.Sprintf("encoder output is not one well-formed JSON document: %v\nschema %s\nmessage: %s\noutput: %q", err, c.ID, txt, out), txt, nil, string(out))
					return
				}
				sp := gpb.RefEncode(mv)
				if m := gpb.Match(sp, j, "$"); m != nil {
					t.Violation("wire-format|kind="+kind+"|"+m.Clause, fmt.Sprintf("%s\nschema %s\nmessage: %s\noutput: %s\nexpected (reference encoder): %s", m.Error(), c.ID, txt, out, gpb.Render(sp, &gpb.RenderOpts{Target: -1})), txt, gpb.Render(sp, &gpb.RenderOpts{Target: -1}), string(out))
					return
				}
				if i%7 == 3 {
					t.Sample(map[string]string{"schema": c.ID, "message": txt, "json": string(out)})
				}
			})
		}
	}

	// ---- EncodeAny followed by encoding the parent (two-step history on one codec) ----
	r.Family("encode-any-then-parent")
	{
		c := gpb.SingleFieldCases()[0]
		_ = c
		sub := gpb.NewSub()
		sub.Full = true
		af := gpb.F("payload", 1, gpb.KJ5Any, gpb.Single)
		root := &gpb.Message{Name: "T", Fields: []*gpb.Field{af, gpb.F("note", 2, gpb.KString, gpb.Single)}}
		s := &gpb.Schema{Enums: []*gpb.Enum{gpb.DefaultEnum}, Messages: []*gpb.Message{root, sub}, Root: root}
		if err := s.Build(); err != nil {
			panic(err)
		}
		codec := j5codec.NewCodec(j5codec.WithResolver(gpb.Resolver{S: s}))
		for i, smv := range gpb.MsgValues(sub) {
			smv := smv
			r.Do(fmt.Sprintf("encode-any#%d", i), func(t *vk.T) {
				t.Coord("encode-any-then-parent")
				t.Nontrivial()
				inner := s.NewMessage(smv)
				a, err := codec.EncodeAny(inner)
				t.Step()
				if err != nil {
					t.Class("encode-error")
					return
				}
				wantInner := string(a.J5Json)
				pv := &gpb.MsgVal{M: root, Fields: []*gpb.FieldVal{
					{F: af, Set: true, One: &gpb.Val{Kind: gpb.KJ5Any, AnyType: a.TypeName, AnyJSON: a.J5Json, AnyProto: a.Proto}},
					{F: root.Fields[1], Set: true, One: &gpb.Val{Kind: gpb.KString, Str: "a longer string than the payload, to move buffers around"}},
				}}
				msg := s.NewMessage(pv)
				out, err := codec.ProtoToJSON(msg)
				t.Step()
				if err != nil {
					t.Class("encode-error")
					return
				}
				j, err := gpb.ParseJSON(out)
				if err != nil {
					t.Violation("not-well-formed|encode-any-then-parent", fmt.Sprintf("parent document is not well-formed JSON: %v\noutput: %q", err, out), nil, nil, string(out))
					return
				}
				pv.Fields[0].One.AnyJSON = []byte(wantInner)
				if m := gpb.Match(gpb.RefEncode(pv), j, "$"); m != nil {
					t.Violation("wire-format|encode-any-then-parent|"+m.Clause, fmt.Sprintf("%s\ninner (from EncodeAny): %s\noutput: %s", m.Error(), wantInner, out), nil, wantInner, string(out))
				}
			})
		}
	}

	// ---- well-formedness only: non-representable values ----
	r.Family("non-representable")
	type bad struct {
		name string
		kind gpb.Kind
		set  func(m protoreflect.Message, fd protoreflect.FieldDescriptor)
	}
	setSub := func(vals map[string]int64) func(m protoreflect.Message, fd protoreflect.FieldDescriptor) {
		return func(m protoreflect.Message, fd protoreflect.FieldDescriptor) {
			sub := m.Mutable(fd).Message()
			for k, v := range vals {
				f := sub.Descriptor().Fields().ByName(protoreflect.Name(k))
				if f.Kind() == protoreflect.Int64Kind {
					sub.Set(f, protoreflect.ValueOfInt64(v))
				} else {
					sub.Set(f, protoreflect.ValueOfInt32(int32(v)))
				}
			}
		}
	}
	bads := []bad{
		{"float-nan", gpb.KFloat, func(m protoreflect.Message, fd protoreflect.FieldDescriptor) { m.Set(fd, protoreflect.ValueOfFloat32(float32(math.NaN()))) }},
		{"float-inf", gpb.KFloat, func(m protoreflect.Message, fd protoreflect.FieldDescriptor) { m.Set(fd, protoreflect.ValueOfFloat32(float32(math.Inf(1)))) }},
		{"double-nan", gpb.KDouble, func(m protoreflect.Message, fd protoreflect.FieldDescriptor) { m.Set(fd, protoreflect.ValueOfFloat64(math.NaN())) }},
		{"double-neg-inf", gpb.KDouble, func(m protoreflect.Message, fd protoreflect.FieldDescriptor) { m.Set(fd, protoreflect.ValueOfFloat64(math.Inf(-1))) }},
		{"date-year-0", gpb.KDate, setSub(map[string]int64{"month": 1, "day": 1})},
		{"date-year-10000", gpb.KDate, setSub(map[string]int64{"year": 10000, "month": 1, "day": 1})},
		{"date-year-negative", gpb.KDate, setSub(map[string]int64{"year": -5, "month": 1, "day": 1})},
		{"date-month-13", gpb.KDate, setSub(map[string]int64{"year": 2000, "month": 13, "day": 1})},
		{"date-day-0", gpb.KDate, setSub(map[string]int64{"year": 2000, "month": 1})},
		{"ts-nanos-negative", gpb.KTimestamp, setSub(map[string]int64{"seconds": 5, "nanos": -1})},
		{"ts-nanos-overflow", gpb.KTimestamp, setSub(map[string]int64{"seconds": 5, "nanos": 2000000000})},
		{"ts-year-10000", gpb.KTimestamp, setSub(map[string]int64{"seconds": 253402300800})},
		{"ts-min-int64", gpb.KTimestamp, setSub(map[string]int64{"seconds": math.MinInt64})},
		{"enum-undefined", gpb.KEnum, func(m protoreflect.Message, fd protoreflect.FieldDescriptor) { m.Set(fd, protoreflect.ValueOfEnum(99)) }},
		{"string-invalid-utf8", gpb.KString, func(m protoreflect.Message, fd protoreflect.FieldDescriptor) { m.Set(fd, protoreflect.ValueOfString("a\xffb")) }},
		{"decimal-malformed", gpb.KDecimal, func(m protoreflect.Message, fd protoreflect.FieldDescriptor) {
			sub := m.Mutable(fd).Message()
			sub.Set(sub.Descriptor().Fields().ByName("value"), protoreflect.ValueOfString("1\"2"))
		}},
	}
	// Any values without a payload, or with a payload that is not what it claims to be
	setAny := func(fields map[string]any) func(m protoreflect.Message, fd protoreflect.FieldDescriptor) {
		return func(m protoreflect.Message, fd protoreflect.FieldDescriptor) {
			sub := m.Mutable(fd).Message()
			for k, v := range fields {
				f := sub.Descriptor().Fields().ByName(protoreflect.Name(k))
				switch x := v.(type) {
				case string:
					sub.Set(f, protoreflect.ValueOfString(x))
				case []byte:
					sub.Set(f, protoreflect.ValueOfBytes(x))
				}
			}
		}
	}
	bads = append(bads,
		bad{"j5any-empty", gpb.KJ5Any, setAny(nil)},
		bad{"j5any-type-only", gpb.KJ5Any, setAny(map[string]any{"type_name": "vt.v1.Sub"})},
		bad{"j5any-json-truncated", gpb.KJ5Any, setAny(map[string]any{"type_name": "vt.v1.Sub", "j5_json": []byte(`{"sVal":`)})},
		bad{"j5any-json-two-values", gpb.KJ5Any, setAny(map[string]any{"type_name": "vt.v1.Sub", "j5_json": []byte(`{} {}`)})},
		bad{"j5any-json-not-json", gpb.KJ5Any, setAny(map[string]any{"type_name": "vt.v1.Sub", "j5_json": []byte("\"},\"x\":{")})},
		bad{"j5any-proto-garbage", gpb.KJ5Any, setAny(map[string]any{"type_name": "vt.v1.Sub", "proto": []byte{0xff, 0xff}})},
		bad{"j5any-proto-unknown-type", gpb.KJ5Any, setAny(map[string]any{"type_name": "nope.v1.Nope", "proto": []byte{0x0a, 0x01, 'x'}})},
		bad{"pbany-empty", gpb.KPbAny, setAny(nil)},
		bad{"pbany-type-only", gpb.KPbAny, setAny(map[string]any{"type_url": "type.googleapis.com/vt.v1.Sub"})},
		bad{"pbany-no-type", gpb.KPbAny, setAny(map[string]any{"value": []byte{0x0a, 0x01, 'x'}})},
		bad{"pbany-garbage", gpb.KPbAny, setAny(map[string]any{"type_url": "type.googleapis.com/vt.v1.Sub", "value": []byte{0xff, 0xff}})},
		bad{"pbany-odd-url", gpb.KPbAny, setAny(map[string]any{"type_url": "vt.v1.Sub", "value": []byte{0x0a, 0x01, 'x'}})},
	)
	for _, b := range bads {
		for _, l := range []gpb.Label{gpb.Single, gpb.Repeated, gpb.Map} {
			b, l := b, l
			r.Do(fmt.Sprintf("bad:%s:%s", b.name, l), func(t *vk.T) {
				t.Coord("non-representable|" + b.name)
				t.Nontrivial()
				f := gpb.F("f_val", 1, b.kind, gpb.Single)
				if b.kind == gpb.KEnum {
					f.Enum = gpb.DefaultEnum
				}
				holder := &gpb.Message{Name: "Holder", Fields: []*gpb.Field{f}}
				hf := gpb.F("holder", 1, gpb.KObject, l)
				hf.Msg = holder
				root := &gpb.Message{Name: "T", Fields: []*gpb.Field{hf}}
				s := &gpb.Schema{Enums: []*gpb.Enum{gpb.DefaultEnum}, Messages: []*gpb.Message{root}, Root: root}
				if err := s.Build(); err != nil {
					panic(err)
				}
				msg := dynamicpb.NewMessage(s.Desc(root))
				hfd := msg.Descriptor().Fields().ByName("holder")
				var inner protoreflect.Message
				switch l {
				case gpb.Single:
					inner = msg.Mutable(hfd).Message()
				case gpb.Repeated:
					lst := msg.Mutable(hfd).List()
					el := lst.NewElement()
					inner = el.Message()
					lst.Append(el)
				case gpb.Map:
					mp := msg.Mutable(hfd).Map()
					el := mp.NewValue()
					inner = el.Message()
					mp.Set(protoreflect.ValueOfString("k").MapKey(), el)
				}
				b.set(inner, inner.Descriptor().Fields().ByName("f_val"))
				codec := j5codec.NewCodec(j5codec.WithResolver(gpb.Resolver{S: s}))
				out, err := codec.ProtoToJSON(msg)
				t.Step()
				if err != nil {
					t.Class("encode-error")
					return
				}
				t.Class("encoded")
				if _, err := gpb.ParseJSON(out); err != nil {
					t.Violation("not-well-formed|non-representable|"+b.name, fmt.Sprintf("encoder returned success with output that is not well-formed JSON: %v\nvalue: %s\noutput: %q", err, b.name, out), b.name, nil, string(out))
				}
				t.Sample(map[string]string{"value": b.name, "json": string(out)})
			})
		}
	}
}
