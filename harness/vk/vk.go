// Package vk is the shared kit of the /verif model-checking harness: a
// bounded-exhaustive explorer (E1) that enumerates cases deterministically,
// shards them over worker subprocesses, isolates crashes and hangs, groups
// violations by structural signature, matches them against the committed
// known-findings file and writes the evidence file.
package vk

import (
	"encoding/json"
	"flag"
	"fmt"
	"hash/fnv"
	"os"
	"os/exec"
	"path/filepath"
	"regexp"
	"runtime"
	"runtime/debug"
	"sort"
	"strconv"
	"strings"
	"sync"
	"sync/atomic"
	"time"
)

const VerifRoot = "/verif"

// Check describes one property check.
type Check struct {
	ID          string // property id, e.g. C20
	Rule        string // how cases are enumerated, what is distinct / non-trivial
	Assumptions []string
	Bounds      map[string]any // static description of alphabets and bounds, per tier
	// Run enumerates every case of the tier, in a deterministic order,
	// calling r.Do for each.
	Run func(r *Runner)
	// Isolate: write a progress record before every case so that a fatal
	// error or hang can be attributed to one case.
	Isolate bool
	// HangSecs: kill a worker whose progress record has not changed for
	// this long (0 = 120).
	HangSecs int
	// Budget per tier (wall seconds). On expiry the run stops, exits 0 and
	// reports exhaustive:false.
	QuickBudget, ThoroughBudget int
	// MaxStackMB is the goroutine stack limit of workers (0 = 256).
	MaxStackMB int
	// Workers overrides the number of worker processes (0 = NumCPU).
	Workers int
	// SingleProcess runs everything in the parent (used by engines that
	// manage their own subprocesses).
	SingleProcess bool
}

// Runner is handed to Check.Run.
type Runner struct {
	Tier     string
	Seed     int64
	chk      *Check
	worker   int
	nworkers int
	idx      int64 // global case index
	family   string

	replayID string // execute only this case id
	replayHit bool

	deadline time.Time
	capHit   bool

	skip      map[int64]bool
	resumeIdx int64 // cases with idx <= resumeIdx were completed before

	st       workerState
	progress *os.File
	lastCkpt time.Time
	ckptPath string
	keys     map[uint64]struct{}
	sampleEvery int64
}

type famStat struct {
	Cases       int64 `json:"cases"`
	Nontrivial  int64 `json:"nontrivial"`
	Transitions int64 `json:"transitions"`
}

type VGroup struct {
	Sig     string `json:"signature"`
	Count   int64  `json:"count"`
	CaseID  string `json:"case_id"`
	Family  string `json:"family"`
	What    string `json:"what"`
	Input   any    `json:"input,omitempty"`
	Expect  any    `json:"expected,omitempty"`
	Observe any    `json:"observed,omitempty"`
}

type workerState struct {
	Evaluations int64               `json:"evaluations"`
	Transitions int64               `json:"transitions"`
	Nontrivial  int64               `json:"nontrivial"`
	Classes     map[string]int64    `json:"classes"`
	Families    map[string]*famStat `json:"families"`
	Groups      map[string]*VGroup  `json:"groups"`
	Samples     []any               `json:"samples"`
	LastIdx     int64               `json:"last_idx"`
	Enumerated  int64               `json:"enumerated"`
	SampledIDs  int64               `json:"sampled_ids"`
	CapHit      bool                `json:"cap_hit"`
	Done        bool                `json:"done"`
	Notes       map[string]any      `json:"notes,omitempty"`
}

// T is the per-case handle.
type T struct {
	r          *Runner
	CaseID     string
	class      string
	key        string
	nontrivial bool
	steps      int64
	sample     any
	coord      string
	sigCoord   *string
	extraEvals, extraDistinct int64
}

// SigCoord sets the coordinates used in the signature of a panic of this case
// (default: the Coord).
func (t *T) SigCoord(c string) {
	t.sigCoord = &c
	t.r.writeProgress(t.CaseID, t.coord+"\x01"+c)
}

// Class sets the outcome class of the case (for the histogram).
func (t *T) Class(c string) { t.class = c }

// Key sets the canonical key used for distinct counting (default: case id).
func (t *T) Key(k string) { t.key = k }

// Nontrivial marks the case as non-trivial by the check's stated rule.
func (t *T) Nontrivial() { t.nontrivial = true }

// Step counts one application of an implementation entry point.
func (t *T) Step() { t.steps++ }
func (t *T) Steps(n int) { t.steps += int64(n) }

// Count lets an engine that explores inside one case (E2) report what it
// covered: executions run, distinct non-trivial ones, implementation steps.
func (t *T) Count(evals, distinct, steps int64) {
	t.extraEvals += evals
	t.extraDistinct += distinct
	t.steps += steps
}

// Sample offers a rendering of the case for the evidence file.
func (t *T) Sample(s any) { t.sample = s }

// Coord records structural coordinates of the case before running risky
// code; used for the signature of a fatal error / hang.
func (t *T) Coord(c string) {
	t.coord = c
	if t.sigCoord != nil {
		t.r.writeProgress(t.CaseID, c+"\x01"+*t.sigCoord)
		return
	}
	t.r.writeProgress(t.CaseID, c)
}

// Violation records a violation of the property by this case.
func (t *T) Violation(sig, what string, input, expect, observe any) {
	g := t.r.st.Groups[sig]
	if g == nil {
		g = &VGroup{Sig: sig, CaseID: t.CaseID, Family: t.r.family, What: what, Input: input, Expect: expect, Observe: observe}
		t.r.st.Groups[sig] = g
	}
	g.Count++
	if t.r.replayID != "" {
		fmt.Printf("replay: case %s violates: %s\n  signature: %s\n", t.CaseID, what, sig)
	}
}

// Family names the following cases.
func (r *Runner) Family(name string) { r.family = name }

// Quick reports whether the tier is quick.
func (r *Runner) Quick() bool { return r.Tier != "thorough" }

// Note stores a free-form item in the evidence (bounds measured at run time).
func (r *Runner) Note(k string, v any) {
	if r.st.Notes == nil {
		r.st.Notes = map[string]any{}
	}
	r.st.Notes[k] = v
}

// MarkIncomplete records that part of the space was not covered (cap hit).
func (r *Runner) MarkIncomplete() { r.capHit = true; r.st.CapHit = true }

// Stopped reports whether the budget is exhausted; enumerators should return.
func (r *Runner) Stopped() bool { return r.capHit }

// Mine reports whether the next case (the one Do would run) belongs to this
// worker; enumerators may use it to skip expensive construction. It does not
// advance the index.
func (r *Runner) Mine() bool {
	if r.replayID != "" {
		return true
	}
	i := r.idx + 1
	return i%int64(r.nworkers) == int64(r.worker)
}

// Skip advances the case index by n without running anything (used by
// enumerators that pre-filter by Mine()).
func (r *Runner) SkipCase() { r.idx++ }

// Do runs one case if it belongs to this worker.
func (r *Runner) Do(caseID string, fn func(t *T)) {
	r.idx++
	if r.replayID != "" {
		if caseID != r.replayID {
			return
		}
		r.replayHit = true
	} else {
		if r.idx%int64(r.nworkers) != int64(r.worker) {
			return
		}
		if r.idx <= r.resumeIdx || r.skip[r.idx] {
			return
		}
		if r.capHit {
			return
		}
		if r.idx&63 == 0 && time.Now().After(r.deadline) {
			r.capHit = true
			r.st.CapHit = true
			return
		}
	}
	t := &T{r: r, CaseID: caseID}
	if r.chk.Isolate {
		r.writeProgress(caseID, "")
	}
	func() {
		defer func() {
			if e := recover(); e != nil {
				stack := string(debug.Stack())
				sc := t.coord
				if t.sigCoord != nil {
					sc = *t.sigCoord
				}
				sig := "panic|" + sc + "|" + PanicSig(e, stack)
				t.Violation(sig, fmt.Sprintf("panic: %v", e), map[string]any{"case": caseID, "coord": t.coord}, nil, trimStack(stack))
				if t.class == "" {
					t.class = "panic"
				}
			}
		}()
		fn(t)
	}()
	r.st.Evaluations++
	if t.extraEvals > 0 {
		r.st.Evaluations += t.extraEvals - 1
		for i := int64(0); i < t.extraDistinct; i++ {
			r.keys[(uint64(len(r.keys))*0x9e3779b97f4a7c15+uint64(r.idx))|1] = struct{}{}
		}
	}
	if t.steps == 0 {
		t.steps = 1
	}
	r.st.Transitions += t.steps
	fs := r.st.Families[r.family]
	if fs == nil {
		fs = &famStat{}
		r.st.Families[r.family] = fs
	}
	fs.Cases++
	fs.Transitions += t.steps
	if t.class == "" {
		t.class = "ok"
	}
	r.st.Classes[t.class]++
	if t.nontrivial {
		k := t.key
		if k == "" {
			k = r.family + "\x00" + caseID
		}
		h := fnv.New64a()
		h.Write([]byte(k))
		hv := h.Sum64() | 1 // keys of inputs are odd, sampled case ids (below) end in four zero bits
		if _, dup := r.keys[hv]; !dup {
			r.keys[hv] = struct{}{}
			r.st.Nontrivial++
			fs.Nontrivial++
		}
	}
	// determinism guard: one case id in sixteen (chosen by its hash) is remembered; the parent counts
	// the ids remembered by all workers. If workers disagree on which case an index denotes, some
	// cases run in two workers and others in none: the counts then differ.
	{
		h := fnv.New64a()
		h.Write([]byte(r.family + "\x01" + caseID))
		if hid := h.Sum64(); hid&15 == 0 && r.replayID == "" {
			r.keys[hid] = struct{}{}
			r.st.SampledIDs++
			if d := os.Getenv("VERIF_DUMP_IDS"); d != "" { // debugging aid for the guard
				if f, err := os.OpenFile(fmt.Sprintf("%s-%d.txt", d, r.worker), os.O_APPEND|os.O_CREATE|os.O_WRONLY, 0o644); err == nil {
					fmt.Fprintf(f, "%s\t%s\t%d\n", r.family, caseID, r.idx)
					f.Close()
				}
			}
		}
	}
	if t.sample != nil && (len(r.st.Samples) < 3 || (r.sampleEvery > 0 && (r.idx+r.Seed)%r.sampleEvery == 0 && len(r.st.Samples) < 6)) {
		r.st.Samples = append(r.st.Samples, map[string]any{"case": caseID, "family": r.family, "class": t.class, "input": t.sample})
	}
	r.st.LastIdx = r.idx
	if r.ckptPath != "" && r.idx&255 == 0 && time.Since(r.lastCkpt) > 2*time.Second {
		r.checkpoint()
	}
}

func (r *Runner) writeProgress(caseID, coord string) {
	if r.progress == nil {
		return
	}
	rec := fmt.Sprintf("%d\x00%s\x00%s\x00%s\x00", r.idx, caseID, coord, r.family)
	if len(rec) > 4000 {
		rec = rec[:4000]
	}
	buf := make([]byte, 4096)
	copy(buf, rec)
	r.progress.WriteAt(buf, 0) //nolint:errcheck
}

func (r *Runner) checkpoint() {
	r.lastCkpt = time.Now()
	b, _ := json.Marshal(&r.st)
	tmp := r.ckptPath + ".tmp"
	if err := os.WriteFile(tmp, b, 0o644); err == nil {
		os.Rename(tmp, r.ckptPath) //nolint:errcheck
	}
	// keys
	kb := make([]byte, 0, len(r.keys)*8)
	for k := range r.keys {
		for i := 0; i < 8; i++ {
			kb = append(kb, byte(k>>(8*i)))
		}
	}
	tmp = r.ckptPath + ".keys.tmp"
	if err := os.WriteFile(tmp, kb, 0o644); err == nil {
		os.Rename(tmp, r.ckptPath+".keys") //nolint:errcheck
	}
}

var reDigits = regexp.MustCompile(`[0-9]+`)
var reQuoted = regexp.MustCompile(`"[^"]*"`)
var reHex = regexp.MustCompile(`0x[0-9a-f]+`)

// PanicSig normalises a recovered panic into "message class @ innermost j5 function".
func PanicSig(e any, stack string) string {
	msg := fmt.Sprint(e)
	if i := strings.IndexByte(msg, '\n'); i >= 0 {
		msg = msg[:i]
	}
	msg = strings.ReplaceAll(msg, "\u00a0", " ") // protobuf-go randomises "proto: " / "proto:\u00a0"
	if strings.HasPrefix(msg, "proto: ") {
		// protobuf-go prefixes the offending field's full name: keep the cause
		if i := strings.LastIndex(msg, ": "); i >= 0 {
			msg = "proto: " + msg[i+2:]
		}
	}
	msg = reQuoted.ReplaceAllString(msg, `"…"`)
	msg = reHex.ReplaceAllString(msg, "0x…")
	msg = reDigits.ReplaceAllString(msg, "N")
	if len(msg) > 120 {
		msg = msg[:120]
	}
	return msg + "@" + InnermostJ5(stack)
}

// InnermostJ5 returns the innermost stack frame function in the j5 module
// that is not harness code.
func InnermostJ5(stack string) string {
	for _, ln := range strings.Split(stack, "\n") {
		if strings.HasPrefix(ln, "\t") {
			continue
		}
		if !strings.Contains(ln, "github.com/pentops/j5/") || strings.Contains(ln, "zzverif") {
			continue
		}
		fn := ln
		if i := strings.LastIndex(fn, "("); i > 0 {
			fn = fn[:i]
		}
		fn = strings.TrimPrefix(fn, "github.com/pentops/j5/")
		// strip generic instantiation and closure suffix noise
		fn = regexp.MustCompile(`\[\.\.\.\]`).ReplaceAllString(fn, "")
		fn = regexp.MustCompile(`\.func[0-9.]+$`).ReplaceAllString(fn, ".func")
		return fn
	}
	return "?"
}

func trimStack(s string) string {
	lines := strings.Split(s, "\n")
	var out []string
	for _, ln := range lines {
		if strings.Contains(ln, "zzverif/vk") || strings.Contains(ln, "runtime/debug") || strings.Contains(ln, "runtime/panic") {
			continue
		}
		out = append(out, ln)
		if len(out) > 40 {
			break
		}
	}
	return strings.Join(out, "\n")
}

// ---- main ----

type knownFinding struct {
	Property  string `json:"property"`
	ID        string `json:"id"`
	Status    string `json:"status"` // open | fixed
	Signature string `json:"signature"`
	What      string `json:"what"`
	Commit    string `json:"commit,omitempty"`
	Example   string `json:"example,omitempty"`
}

func loadKnown(prop string) map[string]knownFinding {
	out := map[string]knownFinding{}
	b, err := os.ReadFile(filepath.Join(VerifRoot, "known_findings.json"))
	if err != nil {
		return out
	}
	var all struct {
		Findings []knownFinding `json:"findings"`
	}
	if err := json.Unmarshal(b, &all); err != nil {
		fmt.Fprintf(os.Stderr, "known_findings.json: %v\n", err)
		os.Exit(2)
	}
	for _, k := range all.Findings {
		if k.Property == prop && k.Status == "open" {
			out[k.Signature] = k
		}
	}
	return out
}

// Main is the entry point of every check binary.
func Main(chk *Check) {
	var (
		tier     = flag.String("tier", os.Getenv("VERIF_TIER"), "quick|thorough")
		worker   = flag.Int("worker", -1, "worker index (internal)")
		nworkers = flag.Int("nworkers", 0, "number of workers (internal)")
		out      = flag.String("out", "", "worker result path (internal)")
		prog     = flag.String("progress", "", "worker progress path (internal)")
		resume   = flag.String("resume", "", "checkpoint to resume from (internal)")
		skip     = flag.String("skip", "", "comma separated case indexes to skip (internal)")
		replay   = flag.String("replay", "", "replay file")
		deadline = flag.Int64("deadline", 0, "unix deadline (internal)")
	)
	flag.Parse()
	if *tier == "" {
		*tier = "quick"
	}
	seed, _ := strconv.ParseInt(os.Getenv("VERIF_SEED"), 10, 64)
	if chk.MaxStackMB > 0 {
		debug.SetMaxStack(chk.MaxStackMB << 20)
	} else {
		debug.SetMaxStack(256 << 20)
	}

	if *replay != "" {
		os.Exit(runReplay(chk, *replay, seed))
	}
	if *worker >= 0 {
		runWorker(chk, *tier, seed, *worker, *nworkers, *out, *prog, *resume, *skip, *deadline)
		return
	}
	os.Exit(runParent(chk, *tier, seed))
}

func newRunner(chk *Check, tier string, seed int64) *Runner {
	r := &Runner{Tier: tier, Seed: seed, chk: chk, nworkers: 1, keys: map[uint64]struct{}{}, sampleEvery: 9973}
	r.st.Classes = map[string]int64{}
	r.st.Families = map[string]*famStat{}
	r.st.Groups = map[string]*VGroup{}
	r.deadline = time.Now().Add(24 * time.Hour)
	return r
}

func runReplay(chk *Check, path string, seed int64) int {
	b, err := os.ReadFile(path)
	if err != nil {
		fmt.Fprintln(os.Stderr, err)
		return 2
	}
	var rp struct {
		Property string `json:"property"`
		Tier     string `json:"tier"`
		CaseID   string `json:"case_id"`
	}
	if err := json.Unmarshal(b, &rp); err != nil {
		fmt.Fprintln(os.Stderr, err)
		return 2
	}
	r := newRunner(chk, rp.Tier, seed)
	r.replayID = rp.CaseID
	chk.Run(r)
	if !r.replayHit {
		fmt.Printf("replay: case %q not found in tier %s\n", rp.CaseID, rp.Tier)
		return 2
	}
	if len(r.st.Groups) > 0 {
		return 1
	}
	fmt.Printf("replay: case %s holds\n", rp.CaseID)
	return 0
}

func runWorker(chk *Check, tier string, seed int64, worker, nworkers int, out, prog, resume, skip string, deadline int64) {
	r := newRunner(chk, tier, seed)
	r.worker, r.nworkers = worker, nworkers
	r.ckptPath = out
	if deadline > 0 {
		r.deadline = time.Unix(deadline, 0)
	}
	r.skip = map[int64]bool{}
	for _, s := range strings.Split(skip, ",") {
		if s == "" {
			continue
		}
		n, _ := strconv.ParseInt(s, 10, 64)
		r.skip[n] = true
	}
	if resume != "" {
		if b, err := os.ReadFile(resume); err == nil {
			if err := json.Unmarshal(b, &r.st); err != nil {
				fmt.Fprintf(os.Stderr, "resume: %v\n", err)
				os.Exit(2)
			}
			r.resumeIdx = r.st.LastIdx
			if kb, err := os.ReadFile(resume + ".keys"); err == nil {
				for i := 0; i+8 <= len(kb); i += 8 {
					var k uint64
					for j := 0; j < 8; j++ {
						k |= uint64(kb[i+j]) << (8 * j)
					}
					r.keys[k] = struct{}{}
				}
			}
		}
	}
	if prog != "" {
		f, err := os.OpenFile(prog, os.O_CREATE|os.O_RDWR, 0o644)
		if err == nil {
			r.progress = f
		}
	}
	chk.Run(r)
	r.st.Done = true
	r.st.Enumerated = r.idx
	r.checkpoint()
}

type crash struct {
	worker int
	idx    int64
	caseID string
	coord  string
	family string
	class  string
	detail string
}

func runParent(chk *Check, tier string, seed int64) int {
	start := time.Now()
	budget := chk.QuickBudget
	if tier == "thorough" {
		budget = chk.ThoroughBudget
	}
	if budget == 0 {
		budget = 600
		if tier == "thorough" {
			budget = 3600
		}
	}
	if s := os.Getenv("VERIF_BUDGET"); s != "" {
		if n, err := strconv.Atoi(s); err == nil {
			budget = n
		}
	}
	deadline := start.Add(time.Duration(budget) * time.Second)

	var merged workerState
	merged.Classes = map[string]int64{}
	merged.Families = map[string]*famStat{}
	merged.Groups = map[string]*VGroup{}
	allKeys := map[uint64]struct{}{}
	var crashes []crash
	capHit := false
	var enumerated []int64

	if chk.SingleProcess {
		r := newRunner(chk, tier, seed)
		r.deadline = deadline
		chk.Run(r)
		mergeState(&merged, &r.st)
		for k := range r.keys {
			allKeys[k] = struct{}{}
		}
		capHit = r.capHit
	} else {
		n := chk.Workers
		if n == 0 {
			n = runtime.NumCPU()
		}
		if s := os.Getenv("VERIF_WORKERS"); s != "" {
			if v, err := strconv.Atoi(s); err == nil && v > 0 {
				n = v
			}
		}
		work := filepath.Join(VerifRoot, ".work", chk.ID+"-"+tier)
		os.RemoveAll(work)                //nolint:errcheck
		os.MkdirAll(work, 0o755)          //nolint:errcheck
		exe, _ := os.Executable()
		var mu sync.Mutex
		var wg sync.WaitGroup
		for w := 0; w < n; w++ {
			wg.Add(1)
			go func(w int) {
				defer wg.Done()
				cs, st, keys := superviseWorker(chk, exe, work, tier, w, n, deadline)
				mu.Lock()
				defer mu.Unlock()
				crashes = append(crashes, cs...)
				if st != nil {
					mergeState(&merged, st)
					if st.Done && !st.CapHit {
						enumerated = append(enumerated, st.Enumerated)
					}
					if st.CapHit || !st.Done {
						capHit = true
					}
				} else {
					capHit = true
				}
				for _, k := range keys {
					allKeys[k] = struct{}{}
				}
			}(w)
		}
		wg.Wait()
		if os.Getenv("VERIF_KEEP_WORK") == "" {
			os.RemoveAll(work) //nolint:errcheck
		}
	}

	// every worker enumerates the whole space: they must agree on its size,
	// otherwise the enumeration is not deterministic (harness error, not a verdict)
	for _, e := range enumerated {
		if e != enumerated[0] {
			fmt.Fprintf(os.Stderr, "harness error: workers enumerated different numbers of cases %v: the enumeration order is not deterministic\n", enumerated)
			return 2
		}
	}

	if chk.SingleProcess {
		merged.Nontrivial = int64(len(allKeys)) // one process: nothing to compare
		merged.SampledIDs = 0
		for k := range allKeys {
			if k&15 == 0 {
				merged.Nontrivial--
			}
		}
	}
	// sampled case ids: every one must have run exactly once over all workers
	idKeys := 0
	for k := range allKeys {
		if k&15 == 0 {
			idKeys++
		}
	}
	if !chk.SingleProcess && len(crashes) == 0 && !capHit && int64(idKeys) != merged.SampledIDs {
		fmt.Fprintf(os.Stderr, "harness error: %d sampled case ids were executed but only %d are distinct: case ids are not unique, or the workers enumerate the cases in different orders (some cases ran twice, others not at all)\n", merged.SampledIDs, idKeys)
		return 2
	}

	// a crash whose stack never enters the code under test is a harness bug, not a verdict
	for _, c := range crashes {
		if c.class == "fatal" && strings.HasSuffix(c.detail, "@?") && strings.Contains(c.detail, "unrecovered") {
			fmt.Fprintf(os.Stderr, "harness error: worker %d died outside the code under test (while at case %s): %s\n", c.worker, c.caseID, c.detail)
			return 2
		}
	}

	// crashes become violation groups
	for _, c := range crashes {
		sc := c.coord
		if i := strings.IndexByte(sc, 1); i >= 0 {
			sc = sc[i+1:] // the case declared coarser signature coordinates
		}
		sig := c.class + "|" + sc + "|" + c.detail
		g := merged.Groups[sig]
		if g == nil {
			g = &VGroup{Sig: sig, CaseID: c.caseID, Family: c.family, What: c.class + " while running case " + c.caseID + ": " + c.detail}
			merged.Groups[sig] = g
		}
		g.Count++
		merged.Classes[c.class]++
		merged.Evaluations++
		merged.Transitions++
	}

	known := loadKnown(chk.ID)
	var sigs []string
	for s := range merged.Groups {
		sigs = append(sigs, s)
	}
	sort.Strings(sigs)
	nviol := 0
	var knownHit []string
	rdir := filepath.Join(VerifRoot, "replays", chk.ID)
	os.RemoveAll(rdir) //nolint:errcheck
	for _, s := range sigs {
		g := merged.Groups[s]
		h := fnv.New64a()
		h.Write([]byte(s))
		rp := filepath.Join(rdir, fmt.Sprintf("%016x.json", h.Sum64()))
		os.MkdirAll(rdir, 0o755) //nolint:errcheck
		rb, _ := json.MarshalIndent(map[string]any{
			"property": chk.ID, "tier": tier, "case_id": g.CaseID, "family": g.Family,
			"signature": g.Sig, "what": g.What, "count": g.Count,
			"input": g.Input, "expected": g.Expect, "observed": g.Observe,
		}, "", " ")
		os.WriteFile(rp, rb, 0o644) //nolint:errcheck
		if k, ok := known[s]; ok {
			fmt.Printf("KNOWN-FINDING: property=%s %s [%s; %d cases; replay=%s]\n", chk.ID, k.What, k.ID, g.Count, rp)
			knownHit = append(knownHit, k.ID)
			continue
		}
		nviol++
		fmt.Printf("VIOLATION property=%s replay=%s\n", chk.ID, rp)
		if nviol <= 25 {
			fmt.Printf("  signature: %s\n  what: %s\n  cases: %d (first: %s)\n", g.Sig, oneLine(g.What, 400), g.Count, g.CaseID)
		} else {
			fmt.Printf("  signature: %s (%d cases)\n", g.Sig, g.Count)
		}
	}

	// evidence
	wall := time.Since(start).Seconds()
	classes := map[string]int64{}
	for k, v := range merged.Classes {
		classes[k] = v
	}
	samples := merged.Samples
	if len(samples) > 8 {
		// rotate by seed
		o := int(seed % int64(len(samples)))
		if o < 0 {
			o = -o
		}
		samples = append(samples[o:], samples[:o]...)[:8]
	}
	if len(samples) == 0 {
		samples = []any{"(no sample offered)"}
	}
	cov := map[string]any{
		"states":                        merged.Evaluations,
		"transitions":                   merged.Transitions,
		"traces_validated_against_impl": merged.Evaluations,
		"evaluations":                   merged.Evaluations,
		"distinct_nontrivial":           len(allKeys) - idKeys,
		"sampled_case_ids":              idKeys,
		// keys executed by more than one worker: with a deterministic enumeration and case ids that are
		// distinct by construction this is 0; a positive number means that workers disagreed on which
		// case an index denotes (some cases ran twice, others not at all), unless the check maps
		// different cases to one key on purpose
		"cross_worker_duplicates": merged.Nontrivial - int64(len(allKeys)-idKeys),
		"rule":                          chk.Rule,
		"samples":                       samples,
		"exhaustive":                    !capHit,
		"cap_hit":                       capHit,
		"budget_s":                      budget,
		"outcome_classes":               classes,
		"families":                      merged.Families,
		"bounds":                        chk.Bounds,
		"violation_groups":              len(sigs),
		"known_findings_hit":            knownHit,
		"explanation":                   "states = cases built on fresh instances; transitions = applications of implementation entry points; every explored behaviour is an execution of the real code, so traces_validated_against_impl = states",
	}
	if merged.Notes != nil {
		cov["notes"] = merged.Notes
	}
	ev := map[string]any{
		"property_id": chk.ID,
		"tier":        tier,
		"seed":        seed,
		"level":       "model_checking",
		"coverage":    cov,
		"assumptions": chk.Assumptions,
		"wall_s":      wall,
		"violations":  nviol,
	}
	eb, _ := json.MarshalIndent(ev, "", " ")
	os.MkdirAll(filepath.Join(VerifRoot, "evidence"), 0o755) //nolint:errcheck
	if err := os.WriteFile(filepath.Join(VerifRoot, "evidence", chk.ID+".json"), eb, 0o644); err != nil {
		fmt.Fprintln(os.Stderr, err)
		return 2
	}
	fmt.Printf("%s %s: cases=%d transitions=%d distinct_nontrivial=%d classes=%d exhaustive=%v violations=%d known=%d dup=%d wall=%.1fs\n",
		chk.ID, tier, merged.Evaluations, merged.Transitions, len(allKeys)-idKeys, len(classes), !capHit, nviol, len(knownHit), merged.Nontrivial-int64(len(allKeys)-idKeys), wall)
	if nviol > 0 {
		return 1
	}
	return 0
}

func oneLine(s string, n int) string {
	s = strings.ReplaceAll(s, "\n", " ⏎ ")
	if len(s) > n {
		s = s[:n] + "…"
	}
	return s
}

func mergeState(dst, src *workerState) {
	dst.Evaluations += src.Evaluations
	dst.Transitions += src.Transitions
	dst.Nontrivial += src.Nontrivial
	dst.SampledIDs += src.SampledIDs
	for k, v := range src.Classes {
		dst.Classes[k] += v
	}
	for k, v := range src.Families {
		d := dst.Families[k]
		if d == nil {
			d = &famStat{}
			dst.Families[k] = d
		}
		d.Cases += v.Cases
		d.Nontrivial += v.Nontrivial
		d.Transitions += v.Transitions
	}
	for k, g := range src.Groups {
		d := dst.Groups[k]
		if d == nil {
			cp := *g
			dst.Groups[k] = &cp
		} else {
			d.Count += g.Count
			if g.CaseID < d.CaseID && len(g.CaseID) <= len(d.CaseID) {
				cnt := d.Count
				*d = *g
				d.Count = cnt
			}
		}
	}
	dst.Samples = append(dst.Samples, src.Samples...)
	if src.Notes != nil {
		if dst.Notes == nil {
			dst.Notes = map[string]any{}
		}
		for k, v := range src.Notes {
			dst.Notes[k] = v
		}
	}
}

// superviseWorker runs one worker shard to completion, restarting it after
// fatal errors and hangs (each attributed to exactly one case).
func superviseWorker(chk *Check, exe, work, tier string, w, n int, deadline time.Time) ([]crash, *workerState, []uint64) {
	out := filepath.Join(work, fmt.Sprintf("w%d.json", w))
	prog := filepath.Join(work, fmt.Sprintf("w%d.prog", w))
	var crashes []crash
	var skips []string
	nhang := 0
	hang := chk.HangSecs
	if hang == 0 {
		hang = 120
	}
	for attempt := 0; attempt < 200; attempt++ {
		args := []string{"--tier", tier, "--worker", strconv.Itoa(w), "--nworkers", strconv.Itoa(n), "--out", out,
			"--deadline", strconv.FormatInt(deadline.Unix(), 10)}
		if chk.Isolate {
			args = append(args, "--progress", prog)
		}
		if attempt > 0 {
			args = append(args, "--resume", out, "--skip", strings.Join(skips, ","))
		}
		cmd := exec.Command(exe, args...)
		errPath := filepath.Join(work, fmt.Sprintf("w%d.err", w))
		ef, _ := os.Create(errPath)
		cmd.Stderr = ef
		cmd.Stdout = ef
		cmd.Env = append(os.Environ(), "GOMAXPROCS=2", "GOTRACEBACK=single")
		if err := cmd.Start(); err != nil {
			fmt.Fprintf(os.Stderr, "worker start: %v\n", err)
			return crashes, nil, nil
		}
		done := make(chan error, 1)
		go func() { done <- cmd.Wait() }()
		var werr error
		hung := false
		lastRec := ""
		lastChange := time.Now()
	wait:
		for {
			select {
			case werr = <-done:
				break wait
			case <-time.After(2 * time.Second):
				if chk.Isolate {
					b, _ := os.ReadFile(prog)
					rec := string(b)
					if rec != lastRec {
						lastRec = rec
						lastChange = time.Now()
					} else if time.Since(lastChange) > time.Duration(curHang(hang))*time.Second {
						hung = true
						cmd.Process.Kill() //nolint:errcheck
						werr = <-done
						break wait
					}
				}
				if time.Now().After(deadline.Add(time.Duration(hang+30) * time.Second)) {
					cmd.Process.Kill() //nolint:errcheck
					<-done
					ef.Close()
					st, keys := readState(out)
					if st != nil {
						st.CapHit = true
					}
					return crashes, st, keys
				}
			}
		}
		ef.Close()
		if werr == nil && !hung {
			st, keys := readState(out)
			return crashes, st, keys
		}
		// crashed or hung
		eb, _ := os.ReadFile(errPath)
		class, detail := classifyCrash(string(eb), hung, werr)
		c := crash{worker: w, class: class, detail: detail}
		if chk.Isolate {
			b, _ := os.ReadFile(prog)
			parts := strings.Split(string(b), "\x00")
			if len(parts) >= 4 {
				c.idx, _ = strconv.ParseInt(parts[0], 10, 64)
				c.caseID, c.coord, c.family = parts[1], parts[2], parts[3]
			}
		}
		if c.idx == 0 {
			// cannot attribute: report as a harness-level crash and stop this shard
			c.caseID = fmt.Sprintf("(worker %d, unattributed)", w)
			c.detail += " :: " + oneLine(tail(string(eb), 600), 600)
			crashes = append(crashes, c)
			st, keys := readState(out)
			if st != nil {
				st.Done = false
			}
			return crashes, st, keys
		}
		crashes = append(crashes, c)
		skips = append(skips, strconv.FormatInt(c.idx, 10))
		if hung {
			hangSeen.Store(true)
			nhang++
			if nhang >= 4 {
				// enough evidence: stop this shard (reported as not exhaustive)
				st, keys := readState(out)
				if st != nil {
					st.Done = false
				}
				return crashes, st, keys
			}
		}
		if _, err := os.Stat(out); err != nil {
			// no checkpoint yet: write an empty one so resume works
			os.WriteFile(out, []byte(`{"classes":{},"families":{},"groups":{}}`), 0o644) //nolint:errcheck
		}
	}
	st, keys := readState(out)
	if st != nil {
		st.Done = false
	}
	return crashes, st, keys
}

// once one hang has been confirmed with the full margin, later ones in the
// same run are cut short (the run is already a violation; this only bounds
// its duration).
var hangSeen atomic.Bool

func curHang(full int) int {
	if hangSeen.Load() && full > 15 {
		return 15
	}
	return full
}

func tail(s string, n int) string {
	if len(s) > n {
		return s[len(s)-n:]
	}
	return s
}

func readState(path string) (*workerState, []uint64) {
	b, err := os.ReadFile(path)
	if err != nil {
		return nil, nil
	}
	st := &workerState{}
	if err := json.Unmarshal(b, st); err != nil {
		return nil, nil
	}
	var keys []uint64
	if kb, err := os.ReadFile(path + ".keys"); err == nil {
		for i := 0; i+8 <= len(kb); i += 8 {
			var k uint64
			for j := 0; j < 8; j++ {
				k |= uint64(kb[i+j]) << (8 * j)
			}
			keys = append(keys, k)
		}
	}
	return st, keys
}

func classifyCrash(stderr string, hung bool, werr error) (string, string) {
	if hung {
		return "hang", "no progress within the hang margin"
	}
	for _, ln := range strings.Split(stderr, "\n") {
		if strings.HasPrefix(ln, "fatal error: ") || strings.HasPrefix(ln, "runtime: goroutine stack exceeds") {
			msg := strings.TrimPrefix(ln, "fatal error: ")
			if strings.Contains(ln, "stack exceeds") {
				msg = "stack overflow"
			}
			return "fatal", msg + "@" + InnermostJ5(afterGoroutine(stderr))
		}
		if strings.HasPrefix(ln, "panic: ") {
			return "fatal", "unrecovered " + PanicSig(strings.TrimPrefix(ln, "panic: "), afterGoroutine(stderr))
		}
	}
	return "fatal", fmt.Sprintf("worker died: %v", werr)
}

func afterGoroutine(s string) string {
	if i := strings.Index(s, "\ngoroutine "); i >= 0 {
		return s[i:]
	}
	return s
}

// ErrClass normalises an error message into a class (no values, no digits).
func ErrClass(err error) string {
	msg := err.Error()
	if i := strings.IndexByte(msg, '\n'); i >= 0 {
		msg = msg[:i]
	}
	msg = reQuoted.ReplaceAllString(msg, `"…"`)
	msg = reHex.ReplaceAllString(msg, "0x…")
	msg = reDigits.ReplaceAllString(msg, "N")
	if len(msg) > 100 {
		msg = msg[:100]
	}
	return msg
}

var reSpace = regexp.MustCompile(`\s+`)

// ErrTail is the innermost cause of an error chain ("a: b: c" -> "c"),
// normalised (no digits, no quoted values, single spaces).
func ErrTail(err error) string {
	msg := strings.ReplaceAll(err.Error(), "\n", " ")
	msg = strings.ReplaceAll(msg, "\u00a0", " ")
	if i := strings.LastIndex(msg, ": "); i >= 0 {
		msg = msg[i+2:]
	}
	msg = reQuoted.ReplaceAllString(msg, `"…"`)
	msg = reHex.ReplaceAllString(msg, "0x…")
	msg = reDigits.ReplaceAllString(msg, "N")
	msg = strings.TrimSpace(reSpace.ReplaceAllString(msg, " "))
	if len(msg) > 80 {
		msg = msg[:80]
	}
	return msg
}
