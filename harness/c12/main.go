// C12: compiled validation constraints accept exactly what the j5s rules allow.
package main

import (
	"sort"
	"math"
	"context"
	"fmt"
	"regexp"
	"strings"
	"unicode/utf8"

	"github.com/bufbuild/protovalidate-go"
	"github.com/pentops/j5/internal/zzverif/gj5s"
	"github.com/pentops/j5/internal/zzverif/vk"
	"google.golang.org/protobuf/reflect/protoreflect"
	"google.golang.org/protobuf/types/dynamicpb"
)

var ctx = context.Background()

func main() {
	gj5s.Silence()
	vk.Main(&vk.Check{
		ID:   "C12",
		Rule: "declarations: integers x 4 formats x minimum {absent,0,5} x maximum {absent,5,10} x each exclusive flag {absent,false,true} (only with its bound); strings x minLength / maxLength {absent,0,1,3} x pattern {absent,^a+$}; keys {plain,id62,uuid,custom pattern}; bytes lengths; bool const {absent,true,false}; enums x in / notIn subsets of 3 options; arrays x minItems {absent,0,1,2} x maxItems {absent,2} x uniqueItems {absent,false,true} x 4 item types (with and without item rules); every declaration x {required, not}, each alone in its object and file. For each declaration: candidate values below / at / above every bound, shortest / longest strings counted in runes (ASCII and 3-byte runes), matching and non-matching patterns, valid and invalid id62 / uuid, defined and undefined enum numbers, list lengths 0-3 with duplicates and one invalid item, absent vs zero. A case = (declaration, value); non-trivial = every case",
		Assumptions: []string{
			"the 'standard protobuf validator' is bufbuild/protovalidate-go v0.9.2 as pinned by the repository, applied to dynamic messages of the compiled type",
			"the reference predicate uses JSON-Schema semantics: bounds inclusive unless the exclusive flag is true; a field that is not required and holds the proto3 zero value is 'absent' and is not a candidate (its status is ambiguous between absent and zero)",
		},
		Isolate:        true,
		QuickBudget:    900,
		ThoroughBudget: 3600,
		Run:            run,
	})
}

type cand struct {
	name string
	set  func(m protoreflect.Message, fd protoreflect.FieldDescriptor)
	ok   bool // reference verdict
	zero bool // the value is the proto3 zero value
}

var reID62 = regexp.MustCompile(`^[0-9A-Za-z]{22}$`)
var reUUID = regexp.MustCompile(`^[0-9a-fA-F]{8}-[0-9a-fA-F]{4}-[0-9a-fA-F]{4}-[0-9a-fA-F]{4}-[0-9a-fA-F]{12}$`)

func intOK(rs *gj5s.RuleSpec, v int64) bool {
	if rs.Min != nil {
		if rs.ExclMin != nil && *rs.ExclMin {
			if !(v > *rs.Min) {
				return false
			}
		} else if !(v >= *rs.Min) {
			return false
		}
	}
	if rs.Max != nil {
		if rs.ExclMax != nil && *rs.ExclMax {
			if !(v < *rs.Max) {
				return false
			}
		} else if !(v <= *rs.Max) {
			return false
		}
	}
	return true
}

func strOK(rs *gj5s.RuleSpec, s string) bool {
	n := uint64(utf8.RuneCountInString(s))
	if rs.MinLen != nil && n < *rs.MinLen {
		return false
	}
	if rs.MaxLen != nil && n > *rs.MaxLen {
		return false
	}
	if rs.Pattern != nil && !regexp.MustCompile(*rs.Pattern).MatchString(s) {
		return false
	}
	switch rs.KeyFormat {
	case "id62":
		return reID62.MatchString(s)
	case "uuid":
		return reUUID.MatchString(s)
	}
	return true
}

func setScalar(kind gj5s.TKind, v int64) func(m protoreflect.Message, fd protoreflect.FieldDescriptor) {
	return func(m protoreflect.Message, fd protoreflect.FieldDescriptor) {
		switch kind {
		case gj5s.TInt32:
			m.Set(fd, protoreflect.ValueOfInt32(int32(v)))
		case gj5s.TInt64:
			m.Set(fd, protoreflect.ValueOfInt64(v))
		case gj5s.TUint32:
			m.Set(fd, protoreflect.ValueOfUint32(uint32(v)))
		case gj5s.TUint64:
			m.Set(fd, protoreflect.ValueOfUint64(uint64(v)))
		}
	}
}

func itemValue(it *gj5s.RuleSpec, good bool, variant int) (protoreflect.Value, bool) {
	switch it.Family {
	case "string":
		if good {
			return protoreflect.ValueOfString([]string{"a", "bb", "ccc"}[variant%3]), true
		}
		if it.MinLen != nil {
			return protoreflect.ValueOfString(""), true
		}
		return protoreflect.Value{}, false
	case "key":
		if good {
			return protoreflect.ValueOfString([]string{"0000000000000000000001", "0000000000000000000002", "0000000000000000000003"}[variant%3]), true
		}
		return protoreflect.ValueOfString("not-an-id"), true
	case "integer":
		if good {
			return protoreflect.ValueOfInt32(int32(variant%3 + 1)), true
		}
		return protoreflect.ValueOfInt32(-1), true
	}
	return protoreflect.Value{}, false
}

func candidates(rs *gj5s.RuleSpec) []cand {
	var out []cand
	switch rs.Family {
	case "integer":
		vals := map[int64]bool{0: true, 1: true}
		for _, b := range []*int64{rs.Min, rs.Max} {
			if b != nil {
				vals[*b-1], vals[*b], vals[*b+1] = true, true, true
			}
		}
		unsigned := rs.Kind == gj5s.TUint32 || rs.Kind == gj5s.TUint64
		// the ends of the format's own range, and a few ordinary values: a bound outside the range
		// must still mean what it says
		lo, hi := int64(math.MinInt64), int64(math.MaxInt64)
		switch rs.Kind {
		case gj5s.TInt32:
			lo, hi = math.MinInt32, math.MaxInt32
		case gj5s.TUint32:
			lo, hi = 0, math.MaxUint32
		case gj5s.TUint64:
			lo = 0
		}
		for _, v := range []int64{lo, hi, 5, 6, 100} {
			vals[v] = true
		}
		var sorted []int64
		for v := range vals {
			sorted = append(sorted, v)
		}
		sort.Slice(sorted, func(i, j int) bool { return sorted[i] < sorted[j] }) // every worker must enumerate the same order
		for _, v := range sorted {
			if unsigned && v < 0 {
				continue
			}
			if v < lo || v > hi {
				continue // not a value of the field
			}
			out = append(out, cand{name: fmt.Sprint(v), set: setScalar(rs.Kind, v), ok: intOK(rs, v), zero: v == 0})
		}
	case "string-format":
		type sv struct {
			s     string
			valid bool
		}
		var vals []sv
		switch rs.StrFormat {
		case "email":
			vals = []sv{{"a@b.co", true}, {"someone@example.com", true}, {"abcdefg@b.co", true}, {"not-an-email", false}, {"a@", false}, {"", false}}
		case "uri":
			vals = []sv{{"x://a", true}, {"https://example.com/a", true}, {"http://b.co", true}, {"no scheme", false}, {"", false}}
		case "hostname":
			vals = []sv{{"b.co", true}, {"example.com", true}, {"host-name.io", true}, {"not a host", false}, {"-bad.example", false}, {"", false}}
		}
		for _, v := range vals {
			v := v
			n := uint64(utf8.RuneCountInString(v.s))
			ok := v.valid && (rs.MinLen == nil || n >= *rs.MinLen) && (rs.MaxLen == nil || n <= *rs.MaxLen)
			out = append(out, cand{name: fmt.Sprintf("%q", v.s), set: func(m protoreflect.Message, fd protoreflect.FieldDescriptor) { m.Set(fd, protoreflect.ValueOfString(v.s)) }, ok: ok, zero: v.s == ""})
		}
	case "string", "key":
		strs := []string{"", "a", "aa", "aaa", "aaaa", "b", "ab", "日", "日本語", "日本語日", "0000000000000000000001", "000000000000000000000", "00000000000000000000011", "0000000000000000-00001", "123e4567-e89b-12d3-a456-426614174000", "123e4567e89b12d3a456426614174000", "abc", "abcd", "ABC"}
		for _, s := range strs {
			s := s
			out = append(out, cand{name: fmt.Sprintf("%q", s), set: func(m protoreflect.Message, fd protoreflect.FieldDescriptor) { m.Set(fd, protoreflect.ValueOfString(s)) }, ok: strOK(rs, s), zero: s == ""})
		}
	case "bytes":
		for n := 0; n <= 4; n++ {
			n := n
			ok := (rs.MinLen == nil || uint64(n) >= *rs.MinLen) && (rs.MaxLen == nil || uint64(n) <= *rs.MaxLen)
			out = append(out, cand{name: fmt.Sprintf("%d bytes", n), set: func(m protoreflect.Message, fd protoreflect.FieldDescriptor) {
				m.Set(fd, protoreflect.ValueOfBytes(make([]byte, n)))
			}, ok: ok, zero: n == 0})
		}
	case "map":
		for n := 0; n <= 3; n++ {
			n := n
			ok := (rs.MinPairs == nil || uint64(n) >= *rs.MinPairs) && (rs.MaxPairs == nil || uint64(n) <= *rs.MaxPairs)
			out = append(out, cand{name: fmt.Sprintf("%d pairs", n), set: func(m protoreflect.Message, fd protoreflect.FieldDescriptor) {
				mp := m.Mutable(fd).Map()
				for i := 0; i < n; i++ {
					mp.Set(protoreflect.ValueOfString(fmt.Sprintf("k%d", i)).MapKey(), protoreflect.ValueOfString("v"))
				}
			}, ok: ok, zero: n == 0})
		}
	case "map-items":
		type mv struct {
			name string
			vals []protoreflect.Value
			ok   bool
		}
		var shapes []mv
		switch rs.Kind {
		case gj5s.TString:
			shapes = []mv{{"empty", nil, true}, {"one-good", []protoreflect.Value{protoreflect.ValueOfString("ab")}, true}, {"one-bad", []protoreflect.Value{protoreflect.ValueOfString("a")}, false}, {"good-and-bad", []protoreflect.Value{protoreflect.ValueOfString("abc"), protoreflect.ValueOfString("")}, false}, {"good-runes", []protoreflect.Value{protoreflect.ValueOfString("日本")}, true}}
		case gj5s.TInt32:
			shapes = []mv{{"empty", nil, true}, {"one-good", []protoreflect.Value{protoreflect.ValueOfInt32(1)}, true}, {"one-bad", []protoreflect.Value{protoreflect.ValueOfInt32(0)}, false}, {"good-and-bad", []protoreflect.Value{protoreflect.ValueOfInt32(5), protoreflect.ValueOfInt32(-1)}, false}}
		case gj5s.TKeyID62:
			shapes = []mv{{"empty", nil, true}, {"one-good", []protoreflect.Value{protoreflect.ValueOfString("0000000000000000000001")}, true}, {"one-bad", []protoreflect.Value{protoreflect.ValueOfString("not-an-id")}, false}}
		}
		for _, sh := range shapes {
			sh := sh
			ok := sh.ok
			if rs.MinPairs != nil && uint64(len(sh.vals)) < *rs.MinPairs {
				ok = false
			}
			out = append(out, cand{name: "map " + sh.name, set: func(m protoreflect.Message, fd protoreflect.FieldDescriptor) {
				mp := m.Mutable(fd).Map()
				for i, v := range sh.vals {
					mp.Set(protoreflect.ValueOfString(fmt.Sprintf("k%d", i)).MapKey(), v)
				}
			}, ok: ok, zero: len(sh.vals) == 0})
		}
	case "bool":
		for _, b := range []bool{false, true} {
			b := b
			out = append(out, cand{name: fmt.Sprint(b), set: func(m protoreflect.Message, fd protoreflect.FieldDescriptor) { m.Set(fd, protoreflect.ValueOfBool(b)) }, ok: rs.Const == nil || *rs.Const == b, zero: !b})
		}
	case "enum":
		names := map[int32]string{0: "UNSPECIFIED", 1: "ALPHA", 2: "BETA", 3: "GAMMA"}
		nums := []int32{0, 1, 2, 3, 99}
		if rs.ProtoEnum {
			names = map[int32]string{0: "UNSPECIFIED", 1: "ALPHA", 5: "BETA", 10: "GAMMA"}
			nums = []int32{0, 1, 2, 3, 5, 10, 99}
		}
		for _, n := range nums {
			n := n
			name, defined := names[n]
			ok := defined
			if len(rs.In) > 0 {
				ok = ok && contains(rs.In, name)
			}
			if len(rs.NotIn) > 0 {
				ok = ok && !contains(rs.NotIn, name)
			}
			out = append(out, cand{name: fmt.Sprintf("enum %d", n), set: func(m protoreflect.Message, fd protoreflect.FieldDescriptor) {
				m.Set(fd, protoreflect.ValueOfEnum(protoreflect.EnumNumber(n)))
			}, ok: ok, zero: n == 0})
		}
	case "array":
		type shape struct {
			name  string
			items []int // >=0 good item variant, -1 bad item
		}
		shapes := []shape{{"empty", nil}, {"one", []int{0}}, {"two", []int{0, 1}}, {"two-dup", []int{0, 0}}, {"three", []int{0, 1, 2}}, {"three-dup", []int{0, 1, 0}}, {"one-bad", []int{-1}}, {"two-one-bad", []int{0, -1}}}
		for _, sh := range shapes {
			sh := sh
			n := uint64(len(sh.items))
			ok := (rs.MinItems == nil || n >= *rs.MinItems) && (rs.MaxItems == nil || n <= *rs.MaxItems)
			dup := strings.HasSuffix(sh.name, "dup")
			if rs.Unique != nil && *rs.Unique && dup {
				ok = false
			}
			hasBad := false
			skip := false
			for _, it := range sh.items {
				if it < 0 {
					hasBad = true
					if _, can := itemValue(rs.Item, false, 0); !can {
						skip = true
					}
				}
			}
			if skip {
				continue
			}
			if hasBad {
				ok = false
			}
			out = append(out, cand{name: "list " + sh.name, set: func(m protoreflect.Message, fd protoreflect.FieldDescriptor) {
				l := m.Mutable(fd).List()
				for _, it := range sh.items {
					v, _ := itemValue(rs.Item, it >= 0, it)
					l.Append(v)
				}
			}, ok: ok, zero: n == 0})
		}
	}
	return out
}

func contains(l []string, s string) bool {
	for _, x := range l {
		if x == s {
			return true
		}
	}
	return false
}

func run(r *vk.Runner) {
	var v protovalidate.Validator
	for _, rs := range gj5s.RuleSpecs() {
		rs := rs
		if r.Stopped() {
			return
		}
		r.Family("rules:" + rs.Family)
		var md protoreflect.MessageDescriptor
		var src string
		var compileErr error
		compiled := false
		get := func() (protoreflect.MessageDescriptor, error) {
			if !compiled {
				compiled = true
				p := (&gj5s.Case{Rule: rs}).Rule
				_ = p
				prog := gj5s.RuleProgram(rs)
				b := prog.Bundle()
				src = b.Files["t/v1/a.j5s"]
				files, err := b.Compile("t.v1")
				if err != nil {
					compileErr = err
				} else {
					for _, f := range files {
						if d := f.Messages().ByName("Holder"); d != nil {
							md = d
						}
					}
				}
			}
			return md, compileErr
		}
		cands := candidates(rs)
		// absent: decided for required fields only (for the others absent == zero value, see the rule)
		if rs.Required {
			cands = append(cands, cand{name: "absent", set: func(protoreflect.Message, protoreflect.FieldDescriptor) {}, ok: false, zero: true})
		}
		if rs.Optional {
			// explicit presence: absent is always fine, a present zero value is judged by the rules
			cands = append(cands, cand{name: "absent", set: func(protoreflect.Message, protoreflect.FieldDescriptor) {}, ok: true})
		}
		for _, c := range cands {
			c := c
			if !r.Mine() {
				r.SkipCase()
				continue
			}
			r.Do(fmt.Sprintf("%s|%s", rs.ID, c.name), func(t *vk.T) {
				t.Coord("rules|" + rs.Family)
				t.SigCoord("rules|" + rs.Family)
				t.Nontrivial()
				md, err := get()
				if err != nil {
					t.Class("does-not-compile") // C07's business
					return
				}
				if md == nil {
					panic("harness: Holder not found")
				}
				if c.zero && !rs.Required && !rs.Optional && c.name != "absent" {
					t.Class("ambiguous-zero-skipped")
					return
				}
				want := c.ok
				if c.zero && rs.Required {
					want = false // a required field holding the zero value is absent
				}
				if v == nil {
					v, err = protovalidate.New()
					if err != nil {
						panic(err)
					}
				}
				msg := dynamicpb.NewMessage(md)
				fd := md.Fields().ByName("val")
				c.set(msg, fd)
				verr := v.Validate(msg)
				t.Step()
				got := verr == nil
				if verr != nil {
					if _, isViolation := verr.(*protovalidate.ValidationError); !isViolation {
						t.Violation("validator-cannot-evaluate|"+rs.Family+"|"+vk.ErrTail(verr), fmt.Sprintf("the compiled constraints cannot be evaluated: %v\n%s", verr, src), src, nil, verr.Error())
						return
					}
				}
				if got != want {
					verdict := map[bool]string{true: "accepts", false: "rejects"}
					t.Violation(fmt.Sprintf("verdict|%s|%s|validator-%s", rs.Family, ruleClass(rs), verdict[got]),
						fmt.Sprintf("the validator %s value %s, the declared rules %s it (%v)\n%s", verdict[got], c.name, map[bool]string{true: "allow", false: "forbid"}[want], verr, src), src, want, got)
					return
				}
				t.Class(map[bool]string{true: "accepted", false: "rejected"}[got])
				if c.name == "absent" {
					t.Sample(map[string]any{"declaration": src, "value": c.name, "accepted": got})
				}
			})
		}
	}
	runPairs(r)
}

// runPairs: every declaration next to a second declaration of the same family in one object.
// The second field is left absent (it is optional or not required) or, when required, holds a
// valid value: the verdict on the first field's candidates must not change.
func runPairs(r *vk.Runner) {
	var v protovalidate.Validator
	byFam := map[string][]*gj5s.RuleSpec{}
	var fams []string
	for _, rs := range gj5s.RuleSpecs() {
		if rs.ProtoEnum || rs.Optional {
			continue
		}
		if _, ok := byFam[rs.Family]; !ok {
			fams = append(fams, rs.Family)
		}
		byFam[rs.Family] = append(byFam[rs.Family], rs)
	}
	for _, fam := range fams {
		list := byFam[fam]
		r.Family("rule-pairs:" + fam)
		for i, a := range list {
			// partners: the next declaration of the family, and the nearest required one
			partners := []*gj5s.RuleSpec{list[(i+1)%len(list)]}
			for k := 1; k < len(list); k++ {
				if p := list[(i+k)%len(list)]; p.Required && p != partners[0] {
					partners = append(partners, p)
					break
				}
			}
			for _, b := range partners {
				a, b := a, b
				if r.Stopped() {
					return
				}
				var md protoreflect.MessageDescriptor
				var src string
				var compileErr error
				compiled := false
				get := func() (protoreflect.MessageDescriptor, error) {
					if !compiled {
						compiled = true
						prog := gj5s.RulePairProgram(a, b)
						if prog == nil {
							compileErr = fmt.Errorf("no pair program")
							return nil, compileErr
						}
						bd := prog.Bundle()
						src = bd.Files["t/v1/a.j5s"]
						files, err := bd.Compile("t.v1")
						if err != nil {
							compileErr = err
						} else {
							for _, f := range files {
								if d := f.Messages().ByName("Holder"); d != nil {
									md = d
								}
							}
						}
					}
					return md, compileErr
				}
				// a valid value for the partner when it is required
				var partnerOK *cand
				for _, c := range candidates(b) {
					c := c
					if c.ok && !c.zero {
						partnerOK = &c
						break
					}
				}
				cands := candidates(a)
				if a.Required {
					cands = append(cands, cand{name: "absent", set: func(protoreflect.Message, protoreflect.FieldDescriptor) {}, ok: false, zero: true})
				}
				// the partner holds a valid value; when it is explicitly optional (a scalar that is
				// not required) it is also left absent
				partnerOptional := !b.Required && b.Family != "array" && b.Family != "map" && b.Family != "map-items"
				type pstate struct {
					name string
					set  bool
				}
				states := []pstate{{"partner-valid", true}}
				if partnerOptional {
					states = append(states, pstate{"partner-absent", false})
				}
				for _, c := range cands {
				for _, ps := range states {
					c, ps := c, ps
					if !r.Mine() {
						r.SkipCase()
						continue
					}
					r.Do(fmt.Sprintf("pair|%s|%s|%s|%s", a.ID, b.ID, c.name, ps.name), func(t *vk.T) {
						t.Coord("rule-pairs|" + a.Family)
						t.SigCoord("rule-pairs|" + a.Family)
						t.Nontrivial()
						md, err := get()
						if err != nil {
							t.Class("does-not-compile")
							return
						}
						if c.zero && !a.Required && c.name != "absent" {
							t.Class("ambiguous-zero-skipped")
							return
						}
						if ps.set && partnerOK == nil {
							t.Class("no-valid-partner-value")
							return
						}
						want := c.ok
						if c.zero && a.Required {
							want = false
						}
						if v == nil {
							v, err = protovalidate.New()
							if err != nil {
								panic(err)
							}
						}
						msg := dynamicpb.NewMessage(md)
						c.set(msg, md.Fields().ByName("val"))
						if ps.set {
							partnerOK.set(msg, md.Fields().ByName("other"))
						}
						verr := v.Validate(msg)
						t.Step()
						got := verr == nil
						if verr != nil {
							if _, isViolation := verr.(*protovalidate.ValidationError); !isViolation {
								t.Violation("validator-cannot-evaluate|pair|"+a.Family+"|"+vk.ErrTail(verr), fmt.Sprintf("the compiled constraints cannot be evaluated: %v\n%s", verr, src), src, nil, verr.Error())
								return
							}
						}
						if got != want {
							verdict := map[bool]string{true: "accepts", false: "rejects"}
							t.Violation(fmt.Sprintf("verdict|pair|%s|validator-%s", a.Family, verdict[got]),
								fmt.Sprintf("with a second %s field in the object (absent unless required), the validator %s value %s of field val, the declared rules %s it (%v)\n%s", b.Family, verdict[got], c.name, map[bool]string{true: "allow", false: "forbid"}[want], verr, src), src, want, got)
							return
						}
						t.Class(map[bool]string{true: "accepted", false: "rejected"}[got])
					})
				}
				}
			}
		}
	}
}

// ruleClass: which rules the declaration carries (structural coordinates).
func ruleClass(rs *gj5s.RuleSpec) string {
	var p []string
	add := func(b bool, s string) {
		if b {
			p = append(p, s)
		}
	}
	add(rs.Required, "required")
	add(rs.Min != nil, "min")
	add(rs.Max != nil, "max")
	add(rs.ExclMin != nil && *rs.ExclMin, "exclmin")
	add(rs.ExclMin != nil && !*rs.ExclMin, "exclmin=false")
	add(rs.ExclMax != nil && *rs.ExclMax, "exclmax")
	add(rs.ExclMax != nil && !*rs.ExclMax, "exclmax=false")
	add(rs.MinLen != nil, "minlen")
	add(rs.MaxLen != nil, "maxlen")
	add(rs.Pattern != nil, "pattern")
	add(rs.KeyFormat != "", "key-"+rs.KeyFormat)
	add(rs.Const != nil, "const")
	add(len(rs.In) > 0, "in")
	add(len(rs.NotIn) > 0, "notin")
	add(rs.MinItems != nil, "minitems")
	add(rs.MaxItems != nil, "maxitems")
	add(rs.Unique != nil && *rs.Unique, "unique")
	add(rs.Item != nil && len(rs.Item.Attrs) > 0, "item-rules")
	if rs.Item != nil {
		p = append(p, "items="+rs.Item.ID)
	}
	return strings.Join(p, "+")
}
