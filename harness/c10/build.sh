#!/bin/bash
# build.sh <out>: C10 harness = instrumented copies (sync -> vsync shim) of the packages under test, built with -race.
set -u
HERE="$(cd "$(dirname "$0")/../.." && pwd)"
. "$HERE/env.sh"
out="$1"; shift
work="$HERE/.work/c10-src"
rm -rf "$work"; mkdir -p "$work"
python3 - "$work" <<'PY' || exit 2
import os, re, sys, json
work = sys.argv[1]
pkgs = ['lib/j5schema', 'lib/j5reflect', 'internal/codec', 'lib/id62', 'lib/j5codec']
rep = {}
n = 0
for pkg in pkgs:
    d = os.path.join('/repo', pkg)
    for f in sorted(os.listdir(d)):
        if not f.endswith('.go') or f.endswith('_test.go'):
            continue
        src = open(os.path.join(d, f)).read()
        new = re.sub(r'(?m)^(\s*)(\w+\s+)?"sync"\s*$', lambda m: m.group(1) + (m.group(2) or 'sync ') + '"github.com/pentops/j5/internal/zzverif/vsync"', src)
        new = re.sub(r'(?m)^(\s*)(\w+\s+)?"sync/atomic"\s*$', lambda m: m.group(1) + (m.group(2) or 'atomic ') + '"github.com/pentops/j5/internal/zzverif/vsync/vatomic"', new)
        new = re.sub(r'(?m)^import\s+"sync"\s*$', 'import sync "github.com/pentops/j5/internal/zzverif/vsync"', new)
        new = re.sub(r'(?m)^import\s+"sync/atomic"\s*$', 'import atomic "github.com/pentops/j5/internal/zzverif/vsync/vatomic"', new)
        if new != src:
            dst = os.path.join(work, pkg.replace('/', '_') + '_' + f)
            open(dst, 'w').write(new)
            rep[os.path.join(d, f)] = dst
            n += 1
json.dump({'Replace': rep}, open(os.path.join(work, 'shim-overlay.json'), 'w'))
print('c10: %d files instrumented (sync -> vsync shim): %s' % (n, ' '.join(sorted(os.path.relpath(k, '/repo') for k in rep))))
PY
ov="$HERE/.work/overlay-c10.json"
python3 "$HERE/overlay.py" "$ov" "$work/shim-overlay.json" || exit 2
rm -f "$HERE/.work/c10-noshim"
cd "$REPO"
if CGO_ENABLED=1 "$VGO" build -race -overlay "$ov" "$@" -o "$out" ./internal/zzverif/c10 2>"$HERE/.work/c10-build.err"; then
  exit 0
fi
echo "c10: instrumented build failed (the shim lacks an API the code now uses?); falling back to call-boundary scheduling points only:" >&2
head -5 "$HERE/.work/c10-build.err" >&2
head -5 "$HERE/.work/c10-build.err" > "$HERE/.work/c10-noshim"
ov2="$HERE/.work/overlay-c10-plain.json"
python3 "$HERE/overlay.py" "$ov2" || exit 2
CGO_ENABLED=1 "$VGO" build -race -overlay "$ov2" "$@" -o "$out" ./internal/zzverif/c10
