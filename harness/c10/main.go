// C10: shared codecs and schema caches are safe for concurrent use (engine E2).
//
// Parent mode (default): for each scenario runs an explorer subprocess built
// with -race (GOMAXPROCS=1, GORACE=halt_on_error=1) and a free-running -race
// pass; aggregates into the evidence file.
// Explorer mode (--explore): stateless DFS over thread interleavings at
// scheduling points, preemption-bounded, on the real codec.
package main

import (
	"context"
	"bytes"
	"encoding/hex"
	"encoding/json"
	"flag"
	"fmt"
	"net/url"
	"os"
	"os/exec"
	"path/filepath"
	"regexp"
	"runtime"
	"sort"
	"strconv"
	"strings"
	"sync"
	"time"

	"github.com/pentops/j5/internal/zzverif/gpb"
	"github.com/pentops/j5/internal/zzverif/vk"
	"github.com/pentops/j5/internal/zzverif/vsched"
	"github.com/pentops/j5/lib/id62"
	"github.com/pentops/j5/lib/j5codec"
	"google.golang.org/protobuf/proto"
	"google.golang.org/protobuf/reflect/protoreflect"
	"google.golang.org/protobuf/types/dynamicpb"
)

// ---------------- scenarios ----------------

type result struct {
	Err string // normalised error class, "" on success
	Out string // canonical output (sorted JSON / deterministic proto bytes)
}

type call struct {
	name string
	run  func(c *j5codec.Codec) result
	// run2, when set, is used instead of run: it also returns a function that re-reads what the call
	// handed back (a decoded message the caller keeps) after every other call has finished
	run2 func(c *j5codec.Codec) (result, func() string)
}

type scenario struct {
	name    string
	warm    []call   // run on the scheduler goroutine before the threads start
	threads [][]call // one list of calls per thread
	global  bool     // use the package-level default codec instead of a fresh one
	opts    []j5codec.CodecOption
	quickBound, thoroughBound int
}

type world struct {
	a, b *gpb.Schema
	msgs map[string]*gpb.Message
}

func buildWorld() *world {
	w := &world{msgs: map[string]*gpb.Message{}}
	sub := gpb.NewSub()
	wrap := gpb.NewWrap()
	fld := func(name string, num int32, k gpb.Kind, l gpb.Label, m *gpb.Message) *gpb.Field {
		f := gpb.F(name, num, k, l)
		f.Msg = m
		if k == gpb.KEnum {
			f.Enum = gpb.DefaultEnum
		}
		return f
	}
	t1 := &gpb.Message{Name: "T1", Fields: []*gpb.Field{fld("sub", 1, gpb.KObject, gpb.Single, sub), fld("color", 2, gpb.KEnum, gpb.Single, nil), fld("name", 3, gpb.KString, gpb.Single, nil), fld("w", 4, gpb.KOneof, gpb.Single, wrap)}}
	t2 := &gpb.Message{Name: "T2", Fields: []*gpb.Field{fld("sub", 1, gpb.KObject, gpb.Single, sub), fld("items", 2, gpb.KObject, gpb.Repeated, sub), fld("color", 3, gpb.KEnum, gpb.Optional, nil)}}
	r1 := &gpb.Message{Name: "R1"}
	r2 := &gpb.Message{Name: "R2"}
	r1.Fields = []*gpb.Field{fld("r_two", 1, gpb.KObject, gpb.Single, r2), fld("name", 2, gpb.KString, gpb.Single, nil)}
	r2.Fields = []*gpb.Field{fld("r_one", 1, gpb.KObject, gpb.Single, r1), fld("list", 2, gpb.KObject, gpb.Repeated, r1), fld("color", 3, gpb.KEnum, gpb.Single, nil)}
	bare := &gpb.Enum{Name: "Bare", Prefix: "", Values: []gpb.EnumVal{{Short: "ZERO", Num: 0}, {Short: "ONE", Num: 1}}}
	bf := gpb.F("bare", 2, gpb.KEnum, gpb.Single)
	bf.Enum = bare
	tbad := &gpb.Message{Name: "TBad", Fields: []*gpb.Field{fld("sub", 1, gpb.KObject, gpb.Single, sub), bf, fld("w", 3, gpb.KOneof, gpb.Single, wrap)}}
	// every leaf kind in one message: per-call scratch state of the scalar encoders / decoders
	v1 := &gpb.Message{Name: "V1", Fields: []*gpb.Field{
		gpb.F("data", 1, gpb.KBytes, gpb.Single), gpb.F("chunks", 2, gpb.KBytes, gpb.Repeated), gpb.F("when", 3, gpb.KTimestamp, gpb.Single),
		gpb.F("day", 4, gpb.KDate, gpb.Single), gpb.F("amount", 5, gpb.KDecimal, gpb.Single), gpb.F("ratio", 6, gpb.KDouble, gpb.Single),
		gpb.F("big", 7, gpb.KInt64, gpb.Single), gpb.F("id", 8, gpb.KKeyUUID, gpb.Single), gpb.F("flag", 9, gpb.KBool, gpb.Optional), gpb.F("text", 10, gpb.KString, gpb.Single),
		gpb.F("by_name", 11, gpb.KBytes, gpb.Map),
	}}
	f1 := &gpb.Message{Name: "F1", Fields: []*gpb.Field{fld("inner", 1, gpb.KFlatten, gpb.Single, sub), fld("name", 2, gpb.KString, gpb.Single, nil)}}
	a1 := &gpb.Message{Name: "A1", Fields: []*gpb.Field{gpb.F("pb_any", 1, gpb.KPbAny, gpb.Single), gpb.F("j_any", 2, gpb.KJ5Any, gpb.Single), gpb.F("note", 3, gpb.KString, gpb.Single)}}
	w.a = &gpb.Schema{Package: "ca.v1", Enums: []*gpb.Enum{gpb.DefaultEnum, bare}, Messages: []*gpb.Message{t1, t2, r1, r2, tbad, v1, a1, f1}}
	u1 := &gpb.Message{Name: "U1", Fields: []*gpb.Field{gpb.F("name", 1, gpb.KString, gpb.Single), gpb.F("n_val", 2, gpb.KInt64, gpb.Single)}}
	w.b = &gpb.Schema{Package: "cb.v1", Messages: []*gpb.Message{u1}}
	if err := w.a.Build(); err != nil {
		panic(err)
	}
	if err := w.b.Build(); err != nil {
		panic(err)
	}
	for _, m := range []*gpb.Message{t1, t2, r1, r2, tbad, v1, a1, f1, sub, wrap} {
		w.msgs[m.Name] = m
	}
	w.msgs["U1"] = u1
	return w
}

func (w *world) schemaOf(name string) *gpb.Schema {
	if name == "U1" {
		return w.b
	}
	return w.a
}

func canonJSON(b []byte) string {
	j, err := gpb.ParseJSON(b)
	if err != nil {
		return "INVALID-JSON:" + string(b)
	}
	var sortJ func(x *gpb.J)
	sortJ = func(x *gpb.J) {
		sort.SliceStable(x.Mem, func(i, k int) bool { return x.Mem[i].K < x.Mem[k].K })
		for _, m := range x.Mem {
			sortJ(m.V)
		}
		for _, e := range x.Arr {
			sortJ(e)
		}
	}
	sortJ(j)
	return j.String()
}

func (w *world) enc(msgName, doc string) call {
	// the message to encode is built by decoding doc with a private codec once
	s := w.schemaOf(msgName)
	md := s.Desc(w.msgs[msgName])
	src := dynamicpb.NewMessage(md)
	if doc != "" {
		if err := j5codec.NewCodec().JSONToProto([]byte(doc), src); err != nil {
			panic(fmt.Sprintf("harness: cannot build %s from %s: %v", msgName, doc, err))
		}
	}
	return call{name: "encode " + msgName, run: func(c *j5codec.Codec) result {
		out, err := c.ProtoToJSON(proto.Clone(src).ProtoReflect())
		if err != nil {
			return result{Err: vk.ErrTail(err)}
		}
		return result{Out: canonJSON(out)}
	}}
}

// encAny encodes an A1 message whose Any fields carry only a proto payload (a Sub with the given text).
func (w *world) encAny(text string, pb, j5 bool) call {
	md := w.a.Desc(w.msgs["A1"])
	subMd := w.a.Desc(w.msgs["Sub"])
	sub := dynamicpb.NewMessage(subMd)
	sub.Set(subMd.Fields().ByName("s_val"), protoreflect.ValueOfString(text))
	payload, err := proto.Marshal(sub)
	if err != nil {
		panic(err)
	}
	src := dynamicpb.NewMessage(md)
	if pb {
		am := src.Mutable(md.Fields().ByName("pb_any")).Message()
		am.Set(am.Descriptor().Fields().ByName("type_url"), protoreflect.ValueOfString("type.googleapis.com/"+string(subMd.FullName())))
		am.Set(am.Descriptor().Fields().ByName("value"), protoreflect.ValueOfBytes(payload))
	}
	if j5 {
		am := src.Mutable(md.Fields().ByName("j_any")).Message()
		am.Set(am.Descriptor().Fields().ByName("type_name"), protoreflect.ValueOfString(string(subMd.FullName())))
		am.Set(am.Descriptor().Fields().ByName("proto"), protoreflect.ValueOfBytes(payload))
	}
	src.Set(md.Fields().ByName("note"), protoreflect.ValueOfString(text))
	return call{name: "encode A1 " + text, run: func(c *j5codec.Codec) result {
		out, err := c.ProtoToJSON(proto.Clone(src).ProtoReflect())
		if err != nil {
			return result{Err: vk.ErrTail(err)}
		}
		return result{Out: canonJSON(out)}
	}}
}

func (w *world) dec(msgName, doc string) call {
	s := w.schemaOf(msgName)
	md := s.Desc(w.msgs[msgName])
	return call{name: "decode " + msgName, run2: func(c *j5codec.Codec) (result, func() string) {
		msg := dynamicpb.NewMessage(md)
		if err := c.JSONToProto([]byte(doc), msg); err != nil {
			return result{Err: vk.ErrTail(err)}, nil
		}
		b, _ := proto.MarshalOptions{Deterministic: true}.Marshal(msg)
		return result{Out: hex.EncodeToString(b)}, func() string {
			b2, _ := proto.MarshalOptions{Deterministic: true}.Marshal(msg)
			return hex.EncodeToString(b2)
		}
	}}
}

func (w *world) qry(msgName string, q url.Values) call {
	s := w.schemaOf(msgName)
	md := s.Desc(w.msgs[msgName])
	return call{name: "query " + msgName, run: func(c *j5codec.Codec) result {
		msg := dynamicpb.NewMessage(md)
		if err := c.QueryToProto(q, msg); err != nil {
			return result{Err: vk.ErrTail(err)}
		}
		b, _ := proto.MarshalOptions{Deterministic: true}.Marshal(msg)
		return result{Out: hex.EncodeToString(b)}
	}}
}

func hashCall(ns string, in ...string) call {
	return call{name: "NewHash " + ns, run: func(*j5codec.Codec) result {
		h := id62.NewHash(ns, in...)
		return result{Out: h.String()}
	}}
}

const t1doc = `{"sub":{"sVal":"x","nVal":"5"},"color":"RED","name":"n","w":{"!type":"armA","armA":{"xVal":"y"}}}`
const t2doc = `{"sub":{"sVal":"a"},"items":[{"nVal":"1"},{"sVal":"b"}],"color":"GREEN"}`
const r1doc = `{"rTwo":{"rOne":{"name":"deep"},"list":[{"name":"l"}],"color":"RED"},"name":"top"}`
const r2doc = `{"rOne":{"name":"x","rTwo":{"color":"DARK_BLUE"}},"list":[{"name":"l"}]}`
const v1docA = `{"data":"AAECAwQFBgcICQoLDA0ODw==","chunks":["/////w==","AA=="],"when":"2024-01-02T03:04:05.000000006Z","day":"2024-02-29","amount":"1234.50","ratio":1.5,"big":"9007199254740993","id":"123e4567-e89b-12d3-a456-426614174000","flag":false,"text":"é\"q","byName":{"a":"AQID"}}`
const v1docB = `{"data":"/v79/Pv6+fj39vX08/Lx8A==","chunks":["EBESEw==","FBUWFxgZ"],"when":"1999-12-31T23:59:59Z","day":"0001-01-01","amount":"-0.000001","ratio":-1e21,"big":"-9223372036854775808","id":"00000000-0000-0000-0000-000000000000","flag":true,"text":"plain","byName":{"b":"BAUG","c":"Bw=="}}`
const f1doc = `{"sVal":"flat","nVal":"7","name":"n"}`
const a1docA = `{"jAny":{"!type":"ca.v1.Sub","value":{"sVal":"first-json-payload-aaaaaaaaaaaaaaaaaaaa"}},"note":"a"}`
const a1docB = `{"jAny":{"!type":"ca.v1.Sub","value":{"sVal":"second"}},"note":"b"}`
const a1docC = `{"jAny":{"!type":"ca.v1.Sub","value":{"sVal":"third-json-payload-cccccccccccccccccccccccccccccc","nVal":"5"}},"note":"c"}`
const badDoc = `{"sub":{"sVal":"x"},"w":{"!type":"armB","armB":{"yVal":3}}}`

func scenarios(w *world) []*scenario {
	return []*scenario{
		{name: "A-same-type-first-use", threads: [][]call{{w.enc("T1", t1doc)}, {w.dec("T1", t1doc)}}, quickBound: 3, thoroughBound: 99},
		{name: "B-shared-subschema", threads: [][]call{{w.enc("T1", t1doc)}, {w.dec("T2", t2doc)}}, quickBound: 3, thoroughBound: 99},
		{name: "C-different-packages", threads: [][]call{{w.enc("T1", t1doc)}, {w.dec("U1", `{"name":"u","nVal":"7"}`)}}, quickBound: 3, thoroughBound: 99},
		{name: "D-mutually-recursive", threads: [][]call{{w.enc("R1", r1doc)}, {w.dec("R2", r2doc)}}, quickBound: 3, thoroughBound: 99},
		{name: "E-three-threads", threads: [][]call{{w.enc("T1", t1doc)}, {w.dec("T1", t1doc)}, {w.qry("T1", url.Values{"name": {"q"}, "sub.sVal": {"z"}})}}, quickBound: 2, thoroughBound: 99},
		{name: "F-warm-cache", warm: []call{w.enc("T1", t1doc), w.dec("T2", t2doc)}, threads: [][]call{{w.enc("T1", t1doc), w.dec("T2", t2doc)}, {w.dec("T1", t1doc), w.enc("T2", t2doc)}}, quickBound: 2, thoroughBound: 4},
		{name: "G-failing-reflection", threads: [][]call{{w.dec("TBad", badDoc), w.enc("T2", t2doc)}, {w.enc("T1", t1doc)}}, quickBound: 3, thoroughBound: 99},
		{name: "H-global-codec", global: true, threads: [][]call{{w.enc("T1", t1doc)}, {w.dec("T2", t2doc)}}, quickBound: 3, thoroughBound: 99},
		{name: "J-two-decodes-same-type", threads: [][]call{{w.dec("T1", t1doc)}, {w.dec("T1", t1doc)}}, quickBound: 3, thoroughBound: 99},
		{name: "K-two-encodes-same-type", threads: [][]call{{w.enc("T1", t1doc)}, {w.enc("T1", t1doc)}}, quickBound: 3, thoroughBound: 99},
		{name: "L-two-decodes-shared-enum", threads: [][]call{{w.dec("T1", t1doc)}, {w.dec("T2", t2doc), w.qry("T2", url.Values{"color": {"RED"}})}}, quickBound: 3, thoroughBound: 99},
		{name: "N-prefixed-enum-names", threads: [][]call{{w.dec("T1", `{"color":"COLOR_RED"}`)}, {w.dec("T2", `{"color":"COLOR_GREEN"}`), w.qry("T2", url.Values{"color": {"COLOR_RED"}})}}, quickBound: 3, thoroughBound: 99},
		{name: "M-warm-two-decodes", warm: []call{w.enc("T1", t1doc)}, threads: [][]call{{w.dec("T1", t1doc)}, {w.dec("T1", t1doc)}}, quickBound: 3, thoroughBound: 99},
		{name: "O-failing-type-twice", threads: [][]call{{w.dec("TBad", badDoc), w.dec("TBad", badDoc), w.enc("T1", t1doc)}, {w.enc("T2", t2doc)}}, quickBound: 2, thoroughBound: 99},
		{name: "P-warm-failing-type", warm: []call{w.dec("TBad", badDoc)}, threads: [][]call{{w.dec("TBad", badDoc), w.enc("T2", t2doc)}, {w.enc("T1", t1doc), w.dec("TBad", badDoc)}}, quickBound: 2, thoroughBound: 99},
		{name: "Q-scalar-scratch-encode", threads: [][]call{{w.enc("V1", v1docA), w.enc("V1", v1docA)}, {w.enc("V1", v1docB)}}, quickBound: 2, thoroughBound: 99},
		{name: "R-scalar-scratch-mixed", warm: []call{w.enc("V1", v1docA)}, threads: [][]call{{w.enc("V1", v1docA), w.dec("V1", v1docB)}, {w.dec("V1", v1docA), w.enc("V1", v1docB)}}, quickBound: 2, thoroughBound: 4},
		{name: "S-any-proto-payloads", opts: []j5codec.CodecOption{j5codec.WithResolver(gpb.Resolver{S: w.a}), j5codec.WithProtoToAny()}, threads: [][]call{{w.encAny("first-payload-aaaaaaaaaaaaaaaa", true, true), w.encAny("third", true, false)}, {w.encAny("second-payload-bbbbbbbbbbbbbbbbbbbbbbbb", true, true)}}, quickBound: 2, thoroughBound: 99},
		{name: "T-any-j5-only", opts: []j5codec.CodecOption{j5codec.WithResolver(gpb.Resolver{S: w.a})}, threads: [][]call{{w.encAny("first-payload-aaaaaaaaaaaaaaaa", false, true)}, {w.encAny("second-payload-bbbbbbbbbbbbbbbbbbbbbbbb", false, true)}}, quickBound: 3, thoroughBound: 99},
		{name: "U-flattened-first-use", threads: [][]call{{w.enc("F1", f1doc)}, {w.dec("F1", f1doc)}, {w.qry("F1", url.Values{"sVal": {"q"}, "name": {"n"}})}}, quickBound: 2, thoroughBound: 99},
		{name: "V-any-json-decodes-retained", opts: []j5codec.CodecOption{j5codec.WithResolver(gpb.Resolver{S: w.a})}, threads: [][]call{{w.dec("A1", a1docA), w.dec("A1", a1docB)}, {w.dec("A1", a1docC)}}, quickBound: 2, thoroughBound: 99},
		{name: "I-hash-ids", threads: [][]call{{hashCall("ns", "a", "b"), hashCall("ns", "a", "b")}, {hashCall("ns", "a", "b"), hashCall("other", "c")}}, quickBound: 3, thoroughBound: 99},
	}
}

// ---------------- one execution ----------------

type execResult struct {
	points  []vsched.PointRec
	results [][]result
	dead    bool
	diverged bool
	overflow bool
}

func (s *scenario) newCodec() *j5codec.Codec {
	if s.global {
		return j5codec.Global
	}
	return j5codec.NewCodec(s.opts...)
}

func safeCall(c call, codec *j5codec.Codec) (r result) {
	r, _ = safeCall2(c, codec)
	return r
}

func safeCall2(c call, codec *j5codec.Codec) (r result, re func() string) {
	defer func() {
		if e := recover(); e != nil {
			r = result{Err: "PANIC: " + vk.PanicSig(e, string(debugStack()))}
			re = nil
		}
	}()
	if c.run2 != nil {
		return c.run2(codec)
	}
	return c.run(codec), nil
}

func execute(s *scenario, prefix []int8) *execResult {
	vsched.Reset(prefix)
	codec := s.newCodec()
	for _, c := range s.warm {
		safeCall(c, codec)
	}
	res := make([][]result, len(s.threads))
	rechecks := make([][]func() string, len(s.threads))
	var wg sync.WaitGroup
	for ti, calls := range s.threads {
		ti, calls := ti, calls
		res[ti] = make([]result, 0, len(calls))
		id := vsched.Register()
		wg.Add(1)
		go func() {
			vsched.ThreadMain(id, func() {
				for _, c := range calls {
					vsched.Yield(vsched.OpCall, 0)
					r, re := safeCall2(c, codec)
					res[ti] = append(res[ti], r)
					rechecks[ti] = append(rechecks[ti], re)
					vsched.Yield(vsched.OpCallEnd, 0)
				}
			})
			wg.Done()
		}()
	}
	vsched.Run()
	dead, div, over := vsched.Status()
	x := &execResult{points: vsched.Points(), dead: dead, diverged: div, overflow: over}
	if !dead {
		wg.Wait() // the only real synchronisation: after every thread has finished
		// history oracle: what a call handed back must still read the same after all later calls
		for ti := range rechecks {
			for ci, re := range rechecks[ti] {
				if re != nil && res[ti][ci].Err == "" {
					if now := re(); now != res[ti][ci].Out {
						res[ti][ci].Out = "RETAINED-MESSAGE-CHANGED after later calls: was " + res[ti][ci].Out + " now " + now
					}
				}
			}
		}
		x.results = res
	}
	return x
}

func soloResults(s *scenario) [][]result {
	out := make([][]result, len(s.threads))
	for ti, calls := range s.threads {
		for _, c := range calls {
			codec := j5codec.NewCodec(s.opts...)
			for _, wc := range s.warm {
				safeCall(wc, codec)
			}
			out[ti] = append(out[ti], safeCall(c, codec))
		}
	}
	return out
}

// ---------------- explorer (child process) ----------------

type exploreOut struct {
	Scenario    string         `json:"scenario"`
	Bound       int            `json:"bound"`
	Executions  int64          `json:"executions"`
	Points      int64          `json:"points"`
	ByPreempt   map[string]int64 `json:"executions_by_preemptions"`
	MaxPoints   int            `json:"max_points"`
	Outcomes    map[string]int64 `json:"distinct_outcomes"`
	LockOrders  map[string]int64 `json:"distinct_sync_orders"`
	OpKinds     map[string]int64 `json:"op_kinds"`
	Violations  []violation    `json:"violations"`
	Complete    bool           `json:"complete"`
	Sample      string         `json:"sample"`
}

type violation struct {
	Sig      string `json:"sig"`
	What     string `json:"what"`
	Schedule string `json:"schedule"`
}

func schedString(p []int8) string {
	parts := make([]string, len(p))
	for i, c := range p {
		parts[i] = strconv.Itoa(int(c))
	}
	return strings.Join(parts, ",")
}

func parseSchedule(s string) []int8 {
	if s == "" {
		return nil
	}
	var out []int8
	for _, p := range strings.Split(s, ",") {
		n, _ := strconv.Atoi(p)
		out = append(out, int8(n))
	}
	return out
}

func describeSchedule(s *scenario, pts []vsched.PointRec) string {
	var sb strings.Builder
	for i, p := range pts {
		if i > 0 {
			sb.WriteString(" ")
		}
		fmt.Fprintf(&sb, "t%d:%s", p.Enabled[p.Chosen], p.Kind)
	}
	return sb.String()
}

func runExplorer(name string, bound int, progressPath string, deadline time.Time, replay string) int {
	w := buildWorld()
	var sc *scenario
	for _, s := range scenarios(w) {
		if s.name == name {
			sc = s
		}
	}
	if sc == nil {
		fmt.Fprintln(os.Stderr, "unknown scenario", name)
		return 2
	}
	solo := soloResults(sc)
	out := &exploreOut{Scenario: name, Bound: bound, ByPreempt: map[string]int64{}, Outcomes: map[string]int64{}, LockOrders: map[string]int64{}, OpKinds: map[string]int64{}, Complete: true}
	announce := func(p []int8) {
		if progressPath != "" {
			os.WriteFile(progressPath, []byte(schedString(p)), 0o644) //nolint:errcheck
		}
	}
	check := func(x *execResult, sched []int8) {
		if x.diverged {
			fmt.Fprintf(os.Stderr, "harness error: schedule %s diverged while replaying its prefix\n", schedString(sched))
			os.Exit(2)
		}
		if x.overflow {
			fmt.Fprintf(os.Stderr, "harness error: scheduler table overflow\n")
			os.Exit(2)
		}
		if x.dead {
			out.Violations = append(out.Violations, violation{Sig: "deadlock|" + name, What: "deadlock: " + strings.Join(vsched.Blocked(), "; ") + " :: " + describeSchedule(sc, x.points), Schedule: schedString(sched)})
			return
		}
		key, _ := json.Marshal(x.results)
		out.Outcomes[string(key)]++
		for ti := range x.results {
			for ci, r := range x.results[ti] {
				want := solo[ti][ci]
				// two failures are the same result whatever their wording (the cache words a repeated
				// failure differently from the first one): only error vs success, outputs and panics count
				bothFail := r.Err != "" && want.Err != "" && !strings.HasPrefix(r.Err, "PANIC") && !strings.HasPrefix(want.Err, "PANIC")
				if r != want && !bothFail {
					cls := "result-differs"
					if strings.HasPrefix(r.Err, "PANIC") {
						cls = "panic"
					}
					out.Violations = append(out.Violations, violation{
						Sig:      cls + "|" + name + "|" + sc.threads[ti][ci].name + "|" + r.Err,
						What:     fmt.Sprintf("%s (thread %d call %d) returned %+v under schedule [%s]; alone it returns %+v", sc.threads[ti][ci].name, ti, ci, r, describeSchedule(sc, x.points), want),
						Schedule: schedString(sched),
					})
				}
			}
		}
	}
	if replay != "-" {
		// replay one schedule (twice) and report
		sched := parseSchedule(replay)
		for i := 0; i < 2; i++ {
			announce(sched)
			x := execute(sc, sched)
			check(x, sched)
		}
		b, _ := json.Marshal(out)
		fmt.Println(string(b))
		return 0
	}
	// determinism: the default schedule twice must give identical observations
	announce(nil)
	x1 := execute(sc, nil)
	x2 := execute(sc, nil)
	k1, _ := json.Marshal(x1.results)
	k2, _ := json.Marshal(x2.results)
	if describeSchedule(sc, x1.points) != describeSchedule(sc, x2.points) || string(k1) != string(k2) {
		fmt.Fprintf(os.Stderr, "harness error: the default schedule is not reproducible:\n%s\n%s\n", describeSchedule(sc, x1.points), describeSchedule(sc, x2.points))
		return 2
	}
	out.Sample = describeSchedule(sc, x1.points)

	var explore func(prefix []int8)
	explore = func(prefix []int8) {
		if len(out.Violations) > 20 {
			out.Complete = false
			return
		}
		if time.Now().After(deadline) {
			out.Complete = false
			return
		}
		announce(prefix)
		x := execute(sc, prefix)
		choices := make([]int8, len(x.points))
		pre := 0
		for i, p := range x.points {
			choices[i] = p.Chosen
			if p.Chosen != 0 && p.RunningEnabled {
				pre++
			}
			out.OpKinds[p.Kind.String()]++
		}
		var lo strings.Builder
		for _, p := range x.points {
			if p.Kind == vsched.OpLock || p.Kind == vsched.OpRLock || p.Kind == vsched.OpAtomic || p.Kind == vsched.OpMapOp || p.Kind == vsched.OpOnce {
				lo.WriteByte(byte('0' + p.Enabled[p.Chosen]))
			}
		}
		out.LockOrders[lo.String()]++
		out.Executions++
		out.Points += int64(len(x.points))
		out.ByPreempt[strconv.Itoa(pre)]++
		if len(x.points) > out.MaxPoints {
			out.MaxPoints = len(x.points)
		}
		check(x, choices)
		cost := 0
		for i := 0; i < len(x.points); i++ {
			p := x.points[i]
			if i >= len(prefix) {
				for alt := int8(1); alt < p.NEn; alt++ {
					c := cost
					if p.RunningEnabled {
						c++
					}
					if c > bound {
						continue
					}
					next := append(append([]int8{}, choices[:i]...), alt)
					explore(next)
				}
			}
			if p.Chosen != 0 && p.RunningEnabled {
				cost++
			}
		}
	}
	explore(nil)
	b, _ := json.Marshal(out)
	fmt.Println(string(b))
	return 0
}

// free-running pass: the same bodies on real goroutines, no scheduler.
func runFree(rounds int) int {
	w := buildWorld()
	for _, sc := range scenarios(w) {
		for r := 0; r < rounds; r++ {
			codec := sc.newCodec()
			for _, c := range sc.warm {
				safeCall(c, codec)
			}
			var wg sync.WaitGroup
			start := make(chan struct{})
			for rep := 0; rep < 3; rep++ {
				for _, calls := range sc.threads {
					calls := calls
					wg.Add(1)
					go func() {
						defer wg.Done()
						<-start
						for _, c := range calls {
							safeCall(c, codec)
						}
					}()
				}
			}
			close(start)
			wg.Wait()
		}
	}
	fmt.Println(`{"free_running":"ok"}`)
	return 0
}

func debugStack() []byte {
	buf := make([]byte, 16<<10)
	return buf[:runtime.Stack(buf, false)]
}

// ---------------- parent ----------------

var reRaceFn = regexp.MustCompile(`(?m)^  (github\.com/pentops/j5/\S+)\(\)\s*$`)

// raceSig extracts the innermost j5 frame of each of the two conflicting accesses.
func raceSig(report string) (string, string) {
	i := strings.Index(report, "WARNING: DATA RACE")
	if i < 0 {
		return "", ""
	}
	rep := report[i:]
	if j := strings.Index(rep, "=================="); j > 0 {
		rep = rep[:j]
	}
	blocks := regexp.MustCompile(`(?m)^(Write|Read|Previous write|Previous read|Atomic write|Atomic read|Previous atomic write|Previous atomic read)[^\n]*\n`).Split(rep, -1)
	var fns []string
	for _, b := range blocks[1:] {
		if k := strings.Index(b, "\n\n"); k > 0 {
			b = b[:k]
		}
		fn := "?"
		for _, m := range reRaceFn.FindAllStringSubmatch(b, -1) {
			if strings.Contains(m[1], "zzverif") {
				continue
			}
			fn = strings.TrimPrefix(m[1], "github.com/pentops/j5/")
			break
		}
		fns = append(fns, fn)
		if len(fns) == 2 {
			break
		}
	}
	sort.Strings(fns)
	return strings.Join(fns, " <-> "), rep
}

func main() {
	explore := flag.String("explore", "", "explorer mode: scenario name")
	bound := flag.Int("bound", 2, "preemption bound")
	progress := flag.String("sched-progress", "", "file receiving the schedule about to run")
	replaySched := flag.String("schedule", "-", "replay this schedule instead of exploring")
	free := flag.Int("free", 0, "free-running pass: rounds")
	budget := flag.Int("explore-budget", 600, "seconds")
	if len(os.Args) > 1 && (strings.HasPrefix(os.Args[1], "--explore") || strings.HasPrefix(os.Args[1], "--free")) {
		flag.Parse()
		if *free > 0 {
			os.Exit(runFree(*free))
		}
		os.Exit(runExplorer(*explore, *bound, *progress, time.Now().Add(time.Duration(*budget)*time.Second), *replaySched))
	}
	vk.Main(&vk.Check{
		ID:   "C10",
		Rule: "for each driver scenario (2-3 threads, 1-2 codec calls each, types forced to share sub-schemas / enums / recursion) every interleaving of the threads at scheduling points (thread start, call boundaries and every sync / atomic operation of lib/j5schema, lib/j5reflect, internal/codec, lib/id62) with at most B preemptions is executed on the real code under the Go race detector; a case = one schedule (distinct by construction: the choice vector); non-trivial = schedule with at least one context switch",
		Assumptions: []string{
			"the Go race detector (ThreadSanitizer runtime) is the per-execution access monitor; the scheduler hand-off is invisible to it (//go:norace spin under GOMAXPROCS=1), so it sees exactly the happens-before edges of the code under test",
			"scheduling at synchronisation operations is sufficient because unsynchronised accesses are reported by the race monitor in the same execution (data-race free => sequentially consistent at sync granularity)",
			"sync operations reached through packages other than the shimmed ones are not scheduling points",
			"2-3 threads with 1-2 calls each; the preemption bound completed is reported per scenario",
		},
		SingleProcess:  true,
		QuickBudget:    900,
		ThoroughBudget: 7200,
		Run:            parent,
	})
}

func parent(r *vk.Runner) {
	exe, _ := os.Executable()
	w := buildWorld()
	work := filepath.Join(vk.VerifRoot, ".work", "C10-"+r.Tier)
	os.MkdirAll(work, 0o755) //nolint:errcheck
	type job struct {
		sc  *scenario
		out *exploreOut
		race, raceRep, schedule string
		err string
		wall float64
	}
	scs := scenarios(w)
	jobs := make([]*job, len(scs))
	var wg sync.WaitGroup
	sem := make(chan struct{}, runtime.NumCPU())
	perBudget := 240
	if !r.Quick() {
		perBudget = 1800
	}
	runChild := func(args []string, prog string) (string, string, int) {
		cmd := exec.Command(exe, args...)
		cmd.Env = append(os.Environ(), "GOMAXPROCS=1", "GORACE=halt_on_error=1 history_size=3", "GOTRACEBACK=single")
		var so, se bytes.Buffer
		cmd.Stdout, cmd.Stderr = &so, &se
		err := cmd.Run()
		code := 0
		if err != nil {
			code = -1
			if ee, ok := err.(*exec.ExitError); ok {
				code = ee.ExitCode()
			}
		}
		return so.String(), se.String(), code
	}
	for i, sc := range scs {
		i, sc := i, sc
		jobs[i] = &job{sc: sc}
		wg.Add(1)
		go func() {
			defer wg.Done()
			sem <- struct{}{}
			defer func() { <-sem }()
			j := jobs[i]
			b := sc.quickBound
			if !r.Quick() {
				b = sc.thoroughBound
			}
			prog := filepath.Join(work, sc.name+".sched")
			st := time.Now()
			so, se, code := runChild([]string{"--explore", sc.name, "--bound", strconv.Itoa(b), "--sched-progress", prog, "--explore-budget", strconv.Itoa(perBudget)}, prog)
			j.wall = time.Since(st).Seconds()
			switch {
			case code == 0:
				var eo exploreOut
				if err := json.Unmarshal([]byte(strings.TrimSpace(so)), &eo); err != nil {
					j.err = "explorer output unreadable: " + err.Error() + " :: " + so + se
					return
				}
				j.out = &eo
			case code == 66 || strings.Contains(se, "WARNING: DATA RACE"):
				sb, _ := os.ReadFile(prog)
				j.schedule = string(sb)
				j.race, j.raceRep = raceSig(se)
				// determinism: the same schedule must race again, twice, at the same site
				for k := 0; k < 2; k++ {
					_, se2, code2 := runChild([]string{"--explore", sc.name, "--bound", strconv.Itoa(b), "--sched-progress", prog + ".replay", "--schedule", j.schedule}, prog)
					sig2, _ := raceSig(se2)
					if (code2 != 66 && !strings.Contains(se2, "WARNING: DATA RACE")) || sig2 != j.race {
						j.err = fmt.Sprintf("race report not reproducible on replay of schedule [%s]: first %q, replay %q (exit %d)", j.schedule, j.race, sig2, code2)
						return
					}
				}
			default:
				j.err = fmt.Sprintf("explorer exited with %d: %s", code, tailStr(se, 1500))
			}
		}()
	}
	// free-running cross-check (not the deciding step)
	freeOut := ""
	wg.Add(1)
	go func() {
		defer wg.Done()
		ctx, cancel := context.WithTimeout(context.Background(), 240*time.Second)
		defer cancel()
		cmd := exec.CommandContext(ctx, exe, "--free", "20")
		cmd.Env = append(os.Environ(), "GORACE=halt_on_error=1", "GOTRACEBACK=single")
		var se bytes.Buffer
		cmd.Stderr = &se
		err := cmd.Run()
		if ctx.Err() != nil {
			// the bodies are finite (seconds): not finishing in 240 s means blocked goroutines
			freeOut = "hang: the free-running pass did not finish within 240 s (blocked goroutines)"
		} else if err != nil {
			sig, _ := raceSig(se.String())
			freeOut = "race: " + sig
			if sig == "" {
				freeOut = "failed: " + tailStr(se.String(), 300)
			}
		} else {
			freeOut = "no race reported"
		}
	}()
	wg.Wait()
	r.Note("free_running_race_pass", freeOut)
	if b, err := os.ReadFile(filepath.Join(vk.VerifRoot, ".work", "c10-noshim")); err == nil {
		// harness limitation, not a violation: sync operations are not scheduling points in this run
		r.Note("sync_shim", "NOT APPLIED - instrumented build failed: "+string(b))
		r.MarkIncomplete()
	} else {
		r.Note("sync_shim", "applied to lib/j5schema, lib/j5reflect, internal/codec, lib/id62, lib/j5codec")
	}
	if strings.HasPrefix(freeOut, "hang:") {
		r.Family("free-running")
		r.Do("free-running-hang", func(t *vk.T) {
			t.Violation("deadlock-free-running", freeOut, nil, nil, nil)
		})
	}
	if strings.HasPrefix(freeOut, "race:") {
		r.Family("free-running")
		r.Do("free-running-race-pass", func(t *vk.T) {
			t.Violation("race-free-running|"+strings.TrimPrefix(freeOut, "race: "), "the free-running -race pass of the scenario bodies reported a data race: "+freeOut, nil, nil, nil)
		})
	}

	for _, j := range jobs {
		j := j
		r.Family("schedules:" + j.sc.name)
		r.Do("scenario:"+j.sc.name, func(t *vk.T) {
			t.Coord(j.sc.name)
			if j.err != "" {
				if strings.HasPrefix(j.err, "race report not reproducible") || strings.HasPrefix(j.err, "explorer output unreadable") {
					panic("harness error: " + j.err)
				}
				t.Violation("explorer-crash|"+j.sc.name, j.err, nil, nil, nil)
				return
			}
			if j.race != "" || j.schedule != "" {
				t.Nontrivial()
				t.Violation("race|"+j.race, fmt.Sprintf("data race in scenario %s under schedule [%s] (reproduced on 2 replays)\n%s", j.sc.name, j.schedule, j.raceRep), map[string]string{"scenario": j.sc.name, "schedule": j.schedule}, nil, j.raceRep)
				t.Class("race")
				return
			}
			o := j.out
			t.Count(o.Executions, o.Executions-o.ByPreempt["0"]+1, o.Points)
			t.Nontrivial()
			t.Class(fmt.Sprintf("explored-%d-result-outcomes-%d-sync-orders", len(o.Outcomes), min(len(o.LockOrders), 9)))
			if !o.Complete {
				r.MarkIncomplete()
			}
			r.Note(j.sc.name, map[string]any{"bound": o.Bound, "executions": o.Executions, "scheduling_points": o.Points, "max_points": o.MaxPoints,
				"executions_by_preemptions": o.ByPreempt, "distinct_outcomes": len(o.Outcomes), "distinct_sync_acquisition_orders": len(o.LockOrders), "op_kinds": o.OpKinds, "complete": o.Complete, "wall_s": j.wall, "default_schedule": o.Sample})
			t.Sample(map[string]any{"scenario": j.sc.name, "default_schedule": o.Sample, "executions": o.Executions})
			for _, v := range o.Violations {
				t.Violation(v.Sig, v.What, map[string]string{"scenario": j.sc.name, "schedule": v.Schedule}, nil, nil)
			}
		})
	}
}

func tailStr(s string, n int) string {
	if len(s) > n {
		return s[len(s)-n:]
	}
	return s
}
