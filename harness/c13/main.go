// C13: appending declarations never changes existing wire identities.
package main

import (
	"context"
	"fmt"
	"strings"

	"github.com/pentops/j5/internal/zzverif/gj5s"
	"github.com/pentops/j5/internal/zzverif/vk"
	"google.golang.org/protobuf/reflect/protoreflect"
)

var ctx = context.Background()

func main() {
	gj5s.Silence()
	vk.Main(&vk.Check{
		ID:   "C13",
		Rule: "breadth-first search over append-edit histories: states = programs (deduplicated by rendered source text; append edits on different declarations commute, merging equal texts is exact), initial states = 10 seed programs, transitions = one append edit at one append point (a field of kind string / inline object / inline enum / array of ref at the end of every object, oneof, request, response, topic message, entity data and event; an option / status / event / method / message at the end of every enum, entity, service, publish topic; a top-level object / oneof / enum / service / topic at the end of every file, incl. names that an existing inline type already has); depth 2 quick / 3 thorough; invariant on every transition P -> P' and against the seed P0; a case = one transition; non-trivial = every transition",
		Assumptions: []string{
			"every state is compiled on a fresh PackageSet; successor states are rebuilt by replaying the edit history on a freshly built seed",
		},
		Isolate:        true,
		QuickBudget:    900,
		ThoroughBudget: 7200,
		Run:            run,
	})
}

type state struct {
	seed  int
	edits [][2]int
}

var cache = map[string]*gj5s.Contract{}
var cacheErr = map[string]string{}

func compile(p *gj5s.Program) (*gj5s.Contract, string, string) {
	b := p.Bundle()
	src := ""
	for _, f := range p.Files {
		src += "// " + f.Path() + "\n" + b.Files[f.Path()] + "\n"
	}
	if c, ok := cache[src]; ok {
		return c, cacheErr[src], src
	}
	ps, err := b.NewPackageSet()
	if err != nil {
		panic(err)
	}
	var files []protoreflect.FileDescriptor
	seen := map[string]bool{}
	var c *gj5s.Contract
	e := ""
	for _, pkg := range b.Packages {
		out, err := ps.CompilePackage(ctx, pkg)
		if err != nil {
			e = err.Error()
			break
		}
		for _, f := range out {
			if !seen[f.Path()] {
				seen[f.Path()] = true
				files = append(files, f)
			}
		}
	}
	if e == "" {
		c = gj5s.Extract(files)
	}
	if len(cache) > 4000 {
		cache = map[string]*gj5s.Contract{}
		cacheErr = map[string]string{}
	}
	cache[src] = c
	cacheErr[src] = e
	return c, e, src
}

func run(r *vk.Runner) {
	depth := 2
	if !r.Quick() {
		depth = 3
	}
	seeds := gj5s.Seeds()
	for si := range seeds {
		if r.Stopped() {
			return
		}
		r.Family(fmt.Sprintf("seed-%d", si))
		seenText := map[string]bool{}
		frontier := []state{{seed: si}}
		root := gj5s.Build(si, nil)
		seenText[render(root)] = true
		for d := 0; d < depth; d++ {
			var next []state
			for _, st := range frontier {
				p := gj5s.Build(st.seed, st.edits)
				pts := p.AppendPoints()
				for pi, pt := range pts {
					for ki, kind := range pt.Kinds {
						edits := append(append([][2]int{}, st.edits...), [2]int{pi, ki})
						p2 := gj5s.Build(st.seed, edits)
						txt := render(p2)
						dup := seenText[txt]
						if !dup {
							seenText[txt] = true
							next = append(next, state{st.seed, edits})
						}
						if dup {
							continue // the same program reached by another order of edits
						}
						st, kind, pt := st, kind, pt
						r.Do(fmt.Sprintf("s%d:%s", si, editID(edits)), func(t *vk.T) {
							checkTransition(t, si, st.edits, edits, pt.Desc, kind)
						})
					}
				}
			}
			frontier = next
		}
	}
}

func editID(e [][2]int) string {
	var parts []string
	for _, x := range e {
		parts = append(parts, fmt.Sprintf("%d.%d", x[0], x[1]))
	}
	return strings.Join(parts, "-")
}

func render(p *gj5s.Program) string {
	s := ""
	for _, f := range p.Files {
		s += f.Path() + "\n" + f.Render() + "\n"
	}
	return s
}

func pointClass(desc string) string {
	// structural class of an append point: what comes after the last ':' or '{'
	if i := strings.LastIndexAny(desc, ":{"); i >= 0 {
		c := desc[i:]
		c = strings.Trim(c, ":{}")
		if j := strings.IndexByte(c, '.'); j > 0 {
			c = c[:j]
		}
		return c
	}
	return desc
}

func checkTransition(t *vk.T, seed int, before, after [][2]int, point, kind string) {
	t.Coord(fmt.Sprintf("seed=%d|append=%s|at=%s", seed, kind, pointClass(point)))
	t.SigCoord("append=" + kind)
	t.Nontrivial()
	p0, e0, _ := compile(gj5s.Build(seed, nil))
	p1, e1, src1 := compile(gj5s.Build(seed, before))
	p2, e2, src2 := compile(gj5s.Build(seed, after))
	t.Steps(2)
	if e0 != "" || e1 != "" {
		t.Class("predecessor-does-not-compile")
		return // the defect (if any) is reported on the transition that introduced it
	}
	if e2 != "" {
		// whether every appended program compiles is C07's question, not this property's:
		// nothing can be compared here
		t.Class("appended-program-rejected")
		return
	}
	for _, pair := range []struct {
		name string
		old  *gj5s.Contract
	}{{"previous state", p1}, {"seed", p0}} {
		if d := gj5s.Subsumes(pair.old, p2); len(d) > 0 {
			all := ""
			for _, x := range d {
				all += "  - " + x.Text + "\n"
			}
			t.Violation("wire-identity-changed|append="+kind+"|"+d[0].Clause, fmt.Sprintf("appending %s at %s changes elements of the %s:\n%sbefore:\n%s\nafter:\n%s", kind, point, pair.name, all, src1, src2), src2, nil, all)
			return
		}
	}
	if len(after) == 2 {
		t.Sample(map[string]string{"append": kind, "at": point, "after": src2})
	}
}
