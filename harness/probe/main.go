// probe: compile a j5s file given on the command line and print the result (development aid).
package main

import (
	"fmt"
	"os"
	"strings"

	"github.com/pentops/j5/internal/zzverif/gj5s"
)

func main() {
	gj5s.Silence()
	b := gj5s.NewBundle()
	pkg := ""
	for _, arg := range os.Args[1:] {
		// arg: path=file-on-disk
		kv := strings.SplitN(arg, "=", 2)
		data, err := os.ReadFile(kv[1])
		if err != nil {
			panic(err)
		}
		b.Add(kv[0], string(data))
		if pkg == "" {
			pkg = b.Packages[0]
		}
	}
	files, err := b.Compile(pkg)
	if err != nil {
		fmt.Println("COMPILE ERROR:", err)
		os.Exit(1)
	}
	if os.Getenv("PROBE_CLIENT") != "" {
		dumpClient(files, pkg)
		return
	}
	for _, f := range files {
		txt, err := gj5s.Print(f)
		fmt.Printf("=== %s (package %s)\n", f.Path(), f.Package())
		if err != nil {
			fmt.Println("PRINT ERROR:", err)
			continue
		}
		fmt.Println(txt)
	}
}
