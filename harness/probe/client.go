package main

import (
	"context"
	"fmt"
	"testing/fstest"

	"github.com/bufbuild/protocompile"
	"github.com/pentops/j5/gen/j5/source/v1/source_j5pb"
	"github.com/pentops/j5/internal/j5client"
	"github.com/pentops/j5/internal/protosrc"
	"github.com/pentops/j5/internal/structure"
	"github.com/pentops/j5/internal/zzverif/gj5s"
	"google.golang.org/protobuf/encoding/protojson"
	"google.golang.org/protobuf/reflect/protoreflect"
)

type noDeps struct{}

func (noDeps) FindFileByPath(path string) (protocompile.SearchResult, error) {
	return protocompile.SearchResult{}, fmt.Errorf("not found: %s", path)
}

func dumpClient[F protoreflect.FileDescriptor](files []F, pkg string) {
	mapFS := fstest.MapFS{}
	for _, f := range files {
		txt, err := gj5s.PrintFD(f)
		if err != nil {
			panic(err)
		}
		mapFS[f.Path()] = &fstest.MapFile{Data: []byte(txt)}
	}
	ctx := context.Background()
	img, err := protosrc.ReadFSImage(ctx, mapFS, nil, noDeps{})
	if err != nil {
		panic(err)
	}
	img.Packages = append(img.Packages, &source_j5pb.PackageInfo{Name: pkg})
	api, err := structure.APIFromImage(img)
	if err != nil {
		panic(err)
	}
	client, err := j5client.APIFromSource(api)
	if err != nil {
		panic(err)
	}
	for _, p := range client.Packages {
		p.Schemas = nil
	}
	fmt.Println(protojson.Format(client))
}
