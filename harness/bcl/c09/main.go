// C09: formatter preserves meaning, is idempotent and emits parseable source.
package main

import (
	"fmt"
	"sort"
	"strings"

	"github.com/pentops/j5/internal/bcl/internal/parser"
	"github.com/pentops/j5/internal/bcl/zzverif/bgen"
	"github.com/pentops/j5/internal/zzverif/vk"
)

func main() {
	vk.Main(&vk.Check{
		ID:   "C09",
		Rule: "lines: every concatenation of <=N symbols of the literal-rich alphabet (N=5 quick / 6 thorough); files: every file of <=L lines (L=3 quick / 4 thorough) over 24 statement representatives x 3 indentations x terminal newline; literals: every ASCII and 10 non-ASCII characters inside string / regex literals in assignment, array, tag and qualifier position; descriptions: width-boundary and paragraph families at indent 0-2; fixtures. One case per source (distinct by construction); non-trivial = source accepted by the parser with at least one statement or comment",
		Assumptions: []string{
			"sources longer than the bounds or using runes outside the literal-character set are not covered",
			"tree equivalence is the explicit position-free dump in harness/bcl/bgen/tree.go (descriptions compared as paragraphs of words, comments as the ordered token sequence)",
		},
		Bounds:         map[string]any{"line_sigma": bgen.LineSigma, "file_lines": bgen.FileLines, "indents": bgen.Indents},
		Isolate:        true,
		QuickBudget:    900,
		ThoroughBudget: 7200,
		Run:            run,
	})
}

func lineShape(src string) string {
	// structural coordinates: which token kinds occur (never their text)
	toks, ok, _ := parser.NewLexer(src).AllTokens(true)
	if !ok {
		return "?"
	}
	set := map[string]bool{}
	for _, t := range toks {
		switch t.Type {
		case parser.STRING, parser.REGEX, parser.COMMENT, parser.BLOCK_COMMENT, parser.DESCRIPTION:
			set[t.Type.String()] = true
		}
	}
	var ks []string
	for k := range set {
		ks = append(ks, k)
	}
	sort.Strings(ks)
	return strings.Join(ks, "+")
}

// checkFmt applies the C09 oracle; returns false when the parser rejects src.
func checkFmt(t *vk.T, src, coord string) bool {
	t.Coord(coord)
	tree, err := parser.ParseFile(src, true)
	t.Step()
	if err != nil || tree == nil {
		t.Class("parser-rejects")
		return false
	}
	cs, _ := bgen.Comments(src)
	if len(tree.Body.Statements) > 0 || len(cs) > 0 {
		t.Nontrivial()
	}
	out, err := parser.Fmt(src)
	t.Step()
	if err != nil {
		t.Violation("fmt-fails-on-accepted-source|"+coord, fmt.Sprintf("Fmt rejects a source the parser accepts: %v\nsource: %q", err, src), src, nil, err.Error())
		return true
	}
	tree2, err := parser.ParseFile(out, true)
	t.Step()
	if err != nil || tree2 == nil {
		t.Violation("output-not-parseable|"+coord, fmt.Sprintf("formatter output is rejected by the parser: %v\nsource: %q\noutput: %q", err, src, out), src, nil, out)
		return true
	}
	d1, d2 := bgen.Dump(tree), bgen.Dump(tree2)
	if d1 != d2 {
		t.Violation("meaning-changed|"+coord, fmt.Sprintf("formatter output denotes a different document\nsource: %q\noutput: %q\ntree(source): %s\ntree(output): %s", src, out, d1, d2), src, d1, d2)
		return true
	}
	cs2, _ := bgen.Comments(out)
	if strings.Join(cs, "\x00") != strings.Join(cs2, "\x00") {
		t.Violation("comments-changed|"+coord, fmt.Sprintf("comments differ\nsource: %q\noutput: %q\n%q vs %q", src, out, cs, cs2), src, cs, cs2)
		return true
	}
	out2, err := parser.Fmt(out)
	t.Step()
	if err != nil {
		t.Violation("fmt-fails-on-own-output|"+coord, fmt.Sprintf("Fmt(Fmt(src)) fails: %v\nsource: %q\noutput: %q", err, src, out), src, nil, out)
		return true
	}
	if out2 != out {
		t.Violation("not-idempotent|"+coord, fmt.Sprintf("formatting twice changes the text\nsource: %q\nonce: %q\ntwice: %q", src, out, out2), src, out, out2)
		return true
	}
	t.Class("accepted-ok")
	return true
}

func run(r *vk.Runner) {
	n, l := 5, 3
	if !r.Quick() {
		n, l = 6, 4
	}
	r.Family("lines")
	bgen.Seqs(bgen.LineSigma, n, r.Stopped, r.Mine, r.SkipCase, func(id, src string, full bool) {
		r.Do(id, func(t *vk.T) {
			if checkFmt(t, src, "line") && full {
				t.Sample(src)
			}
		})
	})
	r.Family("files")
	bgen.Files(l, r.Stopped, r.Mine, r.SkipCase, func(id, src string) {
		r.Do(id, func(t *vk.T) {
			if checkFmt(t, src, "file") && len(src) > 30 {
				t.Sample(src)
			}
		})
	})
	r.Family("literals")
	for _, c := range bgen.LiteralChars() {
		q := bgen.QuoteString("p" + string(c) + "q")
		rx := "/p" + strings.ReplaceAll(string(c), "/", "//") + "q/"
		forms := map[string]string{
			"assign-string":    "k = " + q + "\n",
			"array-string":     "k = [" + q + ", " + q + "]\n",
			"tag-string":       "blk " + q + " {\n}\n",
			"qualifier-string": "blk a:" + q + "\n",
			"assign-regex":     "k = " + rx + "\n",
			"array-regex":      "k = [" + rx + "]\n",
			"comment":          "// p" + string(c) + "q\nk = 1 // " + string(c) + "\n",
			"block-comment":    "/* p" + string(c) + "q */\n",
			"description":      "| p" + string(c) + "q\n",
		}
		var ks []string
		for k := range forms {
			ks = append(ks, k)
		}
		sort.Strings(ks)
		for _, k := range ks {
			src := forms[k]
			r.Do(fmt.Sprintf("lit:%s:U+%04X", k, c), func(t *vk.T) { checkFmt(t, src, "literal-"+k) })
		}
	}
	r.Family("descriptions")
	df := bgen.DescriptionFiles()
	var ks []string
	for k := range df {
		ks = append(ks, k)
	}
	sort.Strings(ks)
	for _, k := range ks {
		src := df[k]
		r.Do("desc:"+k, func(t *vk.T) { checkFmt(t, src, "description") })
	}
	r.Family("description-blocks")
	dn := 5
	if !r.Quick() {
		dn = 7
	}
	bgen.DescriptionBlocks(dn, func(id, src string) {
		r.Do(id, func(t *vk.T) { checkFmt(t, src, "description-block") })
	})
	r.Family("fixtures")
	fx := bgen.Fixtures()
	ks = ks[:0]
	for k := range fx {
		ks = append(ks, k)
	}
	sort.Strings(ks)
	for _, k := range ks {
		src := fx[k]
		r.Do("fixture:"+k, func(t *vk.T) { checkFmt(t, src, "fixture"); t.Sample(src) })
		// every single-chunk deletion of a fixture that still parses
		ch := bgen.Chunks(src)
		for i := range ch {
			m := strings.Join(ch[:i], "") + strings.Join(ch[i+1:], "")
			r.Do(fmt.Sprintf("fixture:%s:del:%d", k, i), func(t *vk.T) { checkFmt(t, m, "fixture-mutation") })
		}
	}
}
