package bgen

import (
	"fmt"
	"reflect"
	"strings"

	"github.com/pentops/j5/internal/bcl/internal/parser"
)

// Dump renders a parsed file as a position-free tree: blocks with type, tags,
// marks, qualifiers, nesting; assignments with key, operator and literal
// (token type and value, arrays recursively); attached comments; descriptions
// normalised to paragraphs of words.
func Dump(f *parser.File) string {
	var sb strings.Builder
	dump(&sb, reflect.ValueOf(f.Body), 0)
	return sb.String()
}

// NormDescription reduces a description to its words and paragraph breaks.
func NormDescription(s string) string {
	var paras []string
	var cur []string
	for _, ln := range strings.Split(s, "\n") {
		w := strings.Fields(ln)
		if len(w) == 0 {
			if len(cur) > 0 {
				paras = append(paras, strings.Join(cur, " "))
				cur = nil
			}
			continue
		}
		cur = append(cur, w...)
	}
	if len(cur) > 0 {
		paras = append(paras, strings.Join(cur, " "))
	}
	return strings.Join(paras, " ¶ ")
}

func dump(sb *strings.Builder, v reflect.Value, depth int) {
	switch v.Kind() {
	case reflect.Ptr, reflect.Interface:
		if v.IsNil() {
			sb.WriteString("nil")
			return
		}
		dump(sb, v.Elem(), depth)
	case reflect.Slice:
		if v.IsNil() {
			sb.WriteString("nil[]")
			return
		}
		sb.WriteString("[")
		for i := 0; i < v.Len(); i++ {
			if i > 0 {
				sb.WriteString(", ")
			}
			dump(sb, v.Index(i), depth+1)
		}
		sb.WriteString("]")
	case reflect.Struct:
		t := v.Type()
		switch t.Name() {
		case "Point", "unknownValue":
			return
		case "Description":
			fmt.Fprintf(sb, "desc(%q)", NormDescription(v.FieldByName("Value").String()))
			return
		case "Comment":
			fmt.Fprintf(sb, "comment(%q)", v.FieldByName("Value").String())
			return
		case "Token":
			fmt.Fprintf(sb, "tok(%d,%q)", v.FieldByName("Type").Int(), v.FieldByName("Lit").String())
			return
		case "SourceNode":
			c := v.FieldByName("Comment")
			if !c.IsNil() {
				sb.WriteString("trailing-")
				dump(sb, c, depth)
			}
			return
		}
		sb.WriteString(t.Name() + "{")
		for i := 0; i < v.NumField(); i++ {
			f := t.Field(i)
			if f.Type.Name() == "Point" || f.Type.Name() == "unknownValue" {
				continue
			}
			if f.Name == "IsRoot" {
				continue
			}
			sb.WriteString(f.Name + ":")
			dump(sb, v.Field(i), depth+1)
			sb.WriteString(" ")
		}
		sb.WriteString("}")
	case reflect.String:
		fmt.Fprintf(sb, "%q", v.String())
	case reflect.Bool:
		fmt.Fprintf(sb, "%v", v.Bool())
	case reflect.Int, reflect.Int64, reflect.Int32:
		fmt.Fprintf(sb, "%d", v.Int())
	default:
		fmt.Fprintf(sb, "<%s>", v.Kind())
	}
}

// Comments returns the comment tokens (kind and text) of a source in order.
func Comments(src string) ([]string, bool) {
	toks, ok, err := parser.NewLexer(src).AllTokens(true)
	if err != nil || !ok {
		return nil, false
	}
	var out []string
	for _, t := range toks {
		if t.Type == parser.COMMENT || t.Type == parser.BLOCK_COMMENT {
			out = append(out, fmt.Sprintf("%d:%s", t.Type, t.Lit))
		}
	}
	return out, true
}
