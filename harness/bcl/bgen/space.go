package bgen

import (
	"fmt"
	"strconv"
	"strings"
)

// LineSigma is the literal-rich alphabet for the formatter checks (C09, C19):
// symbols are concatenated without implicit separators.
var LineSigma = []string{
	" ", "\n", "\r\n",
	"a", "b", "true", "1", "1.5",
	`"s"`, `"q\"\\é"`, "\"x\\\ny\"", "\"\t\"",
	"/r/", "/a//b/",
	"//c", "/*c*/", "/*m\nn*/", "| d e",
	"=", "+", "{", "}", "[", "]", ".", ",", ":", "!", "?",
}

// Seqs enumerates every concatenation of <= n symbols of sig. mine() is asked
// before a case is built; emit receives the id and the text.
func Seqs(sig []string, n int, stopped func() bool, mine func() bool, skip func(), emit func(id, src string, full bool)) {
	idx := make([]int, 0, n)
	var sb strings.Builder
	var rec func(depth int)
	rec = func(depth int) {
		if stopped() {
			return
		}
		if mine() {
			sb.Reset()
			id := make([]string, len(idx))
			for i, k := range idx {
				sb.WriteString(sig[k])
				id[i] = strconv.Itoa(k)
			}
			emit("seq:"+strings.Join(id, ","), sb.String(), len(idx) == n)
		} else {
			skip()
		}
		if depth == n {
			return
		}
		for k := range sig {
			idx = append(idx, k)
			rec(depth + 1)
			idx = idx[:len(idx)-1]
		}
	}
	rec(0)
}

// FileLines are the statement representatives for the file-level space:
// one per statement kind x literal kind x decoration.
var FileLines = []string{
	"",
	"a {",
	"a b c {",
	"a ! b:c.d:\"q\" { // tc",
	"a ? \"t\" | inline desc",
	"a b",
	"}",
	"} // after",
	"k = 1",
	"k.j = \"s\" // tc",
	"k += [1, [\"x\", 2.5], true]",
	"k = /a//b/",
	"k = []",
	"k = b.c",
	"| desc one",
	"| desc  two   words ",
	"|",
	"// line comment",
	"/* block */",
	"/* multi\n   line */",
	"/*c*/ a = 1",
	"a = 1 /*c*/",
	"} }",
	"k = \"x\\\ny\"",
}

var Indents = []string{"", "  ", "\t\t"}

// Files enumerates every file of <= n lines over FileLines crossed with an
// indentation per line, plus a choice of terminal newline.
func Files(n int, stopped func() bool, mine func() bool, skip func(), emit func(id, src string)) {
	type ch struct{ l, in int }
	cur := make([]ch, 0, n)
	var rec func()
	rec = func() {
		if stopped() {
			return
		}
		for _, term := range []string{"\n", "", "\r\n"} {
			if mine() {
				var sb strings.Builder
				id := "file:"
				sep := "\n"
				if term == "\r\n" { // every line of the file ends in CR LF
					sep = term
				}
				for i, c := range cur {
					if i > 0 {
						sb.WriteString(sep)
					}
					if FileLines[c.l] != "" {
						sb.WriteString(Indents[c.in])
					}
					sb.WriteString(FileLines[c.l])
					id += strconv.Itoa(c.l) + "." + strconv.Itoa(c.in) + ","
				}
				sb.WriteString(term)
				emit(id+"t"+strconv.Itoa(len(term)), sb.String())
			} else {
				skip()
			}
		}
		if len(cur) == n {
			return
		}
		for l := range FileLines {
			nin := len(Indents)
			if FileLines[l] == "" {
				nin = 1
			}
			for in := 0; in < nin; in++ {
				cur = append(cur, ch{l, in})
				rec()
				cur = cur[:len(cur)-1]
			}
		}
	}
	rec()
}

// LiteralChars: every ASCII character and a set of non-ASCII ones, for
// string / regex literal families.
func LiteralChars() []rune {
	var out []rune
	for c := rune(0); c < 128; c++ {
		out = append(out, c)
	}
	out = append(out, 0x85, 0xa0, 'é', 0x2028, 0x2029, 0xfeff, 0xfffd, '日', '😀', 0x10ffff)
	return out
}

// QuoteString renders a string literal in BCL source form (escapes: \\ \" and
// backslash-newline), written from the lexer's documentation.
func QuoteString(s string) string {
	var sb strings.Builder
	sb.WriteByte('"')
	for _, r := range s {
		switch r {
		case '\\':
			sb.WriteString(`\\`)
		case '"':
			sb.WriteString(`\"`)
		case '\n':
			sb.WriteString("\\\n")
		default:
			sb.WriteRune(r)
		}
	}
	sb.WriteByte('"')
	return sb.String()
}

// Blocks: description / width families
func DescriptionFiles() map[string]string {
	out := map[string]string{}
	word := func(n int) string { return strings.Repeat("w", n) }
	for _, indent := range []int{0, 1, 2} {
		tabs := strings.Repeat("\t", indent)
		open := ""
		closeS := ""
		for i := 0; i < indent; i++ {
			open += strings.Repeat("\t", i) + "blk {\n"
			closeS = strings.Repeat("\t", i) + "}\n" + closeS
		}
		for _, w := range []int{1, 38, 39, 40, 41, 71, 72, 73, 79, 80, 81, 120} {
			out["width:"+strconv.Itoa(indent)+":"+strconv.Itoa(w)] = open + tabs + "| " + word(w) + " " + word(w) + " x\n" + closeS
		}
		// separators of several blanks, and trailing blanks, at every position around the wrap column
		for w := 66; w <= 82; w++ {
			for si, sep := range []string{"  ", "   ", " \t", "\t"} {
				out[fmt.Sprintf("boundary:%d:%d:sep%d", indent, w, si)] = open + tabs + "| " + word(w) + sep + "bbb\n" + closeS
				out[fmt.Sprintf("boundary:%d:%d:trail%d", indent, w, si)] = open + tabs + "| " + word(w) + sep + "\n" + tabs + "| bbb\n" + closeS
				out[fmt.Sprintf("boundary:%d:%d:lead%d", indent, w, si)] = open + tabs + "|" + sep + word(w) + " bbb\n" + closeS
			}
		}
		for name, body := range map[string]string{
			"para":      "| one two\n|\n| three",
			"para2":     "| one\n|\n|\n|\n| two",
			"lead":      "|\n| one",
			"trail":     "| one\n|",
			"spaces":    "|   one    two  \n|  three",
			"tabs":      "| one\ttwo",
			"nonascii":  "| é日😀 ü\n| " + strings.Repeat("é", 81) + " z",
			"slashes":   "| see // not a comment /* nor this */",
			"pipe":      "| a | b",
			"separated": "| one\n\n| two",
			"nospace":   "|one\n|two",
		} {
			src := ""
			for _, ln := range strings.Split(body, "\n") {
				if ln == "" {
					src += "\n"
				} else {
					src += tabs + ln + "\n"
				}
			}
			out["desc:"+strconv.Itoa(indent)+":"+name] = open + src + closeS
			out["hdrdesc:"+strconv.Itoa(indent)+":"+name] = open + tabs + "a b {\n" + strings.ReplaceAll(src, "\n"+tabs+"|", "\n"+tabs+"\t|") + tabs + "}\n" + closeS
		}
	}
	return out
}

// DescriptionBlocks enumerates every description block of <= n lines over a
// small line alphabet (empty line, one word, two words, a long word run), at
// indent 0 and 1.
func DescriptionBlocks(n int, emit func(id, src string)) {
	alpha := []string{"|", "| a", "| b c", "| " + strings.Repeat("w", 38) + " " + strings.Repeat("v", 39)}
	var cur []int
	var rec func()
	rec = func() {
		if len(cur) > 0 {
			for indent := 0; indent < 2; indent++ {
				var sb strings.Builder
				id := "dblock:" + strconv.Itoa(indent) + ":"
				if indent == 1 {
					sb.WriteString("blk {\n")
				}
				for _, k := range cur {
					sb.WriteString(strings.Repeat("\t", indent) + alpha[k] + "\n")
					id += strconv.Itoa(k)
				}
				if indent == 1 {
					sb.WriteString("}\n")
				}
				emit(id, sb.String())
			}
		}
		if len(cur) == n {
			return
		}
		for k := range alpha {
			cur = append(cur, k)
			rec()
			cur = cur[:len(cur)-1]
		}
	}
	rec()
}
