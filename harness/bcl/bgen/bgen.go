// Package bgen holds the lexical alphabets, fixtures and AST helpers shared by
// the BCL checks (C11, C09, C19).
package bgen

import (
	"fmt"
	"os"
	"path/filepath"
	"reflect"
	"strings"
	"unicode/utf8"

	"github.com/pentops/j5/internal/bcl/errpos"
)

// Sigma is the complete lexical-symbol alphabet for C11: symbols are
// concatenated without implicit separators; space, tab and newline are symbols.
var Sigma = []string{
	" ", "\t", "\n",
	"a", "é", "true", "1", "1.5", "1.2.3", "٣",
	`"s"`, `"q\"q"`, `"b\\"`, "\"x\\\ny\"", `"\z"`, `"u`, `"e\`,
	"/r/", "/a//b/", "/u",
	"//c", "/*c*/", "/*m\nn*/", "/*u",
	"| d", "|",
	"=", "{", "}", "[", "]", ".", ",", ":", "+", "!", "?",
	"@", "\r", "\x00", "😀\n",
}

// Fixtures returns the repository's BCL / j5s sources plus a few embedded ones.
func Fixtures() map[string]string {
	out := map[string]string{}
	for _, p := range []string{
		"/repo/j5stest/proto/j5st/v1/foo.j5s",
		"/repo/internal/bcl/examples/sample.bcl",
		"/repo/internal/bcl/internal/parser/testdata/fmt_canon.bcl",
	} {
		if b, err := os.ReadFile(p); err == nil {
			out[filepath.Base(p)] = string(b)
		}
	}
	out["embedded-1"] = "package foo.v1\n\nimport bar.v1:b\n\nobject Foo {\n\t| Foo is a thing\n\t| with two lines\n\n\tfield id ! key:id62 {\n\t\tprimary = true\n\t}\n\n\tfield tags array:string // trailing\n\tfield rx string {\n\t\trules.pattern = /^a\\/\\/b$/\n\t\tx += [\"a\", [1, 2.5], true]\n\t}\n}\n/* block\ncomment */\nenum E {\n\toption A | first\n\toption B\n}\n"
	return out
}

// Chunks splits a source text into lexical chunks (own splitter, independent
// of the lexer under test): identifiers, numbers, strings, regex-ish, comments,
// newlines, blanks, single punctuation.
func Chunks(s string) []string {
	var out []string
	rs := []rune(s)
	i := 0
	isId := func(r rune) bool {
		return r == '_' || r >= '0' && r <= '9' || r >= 'a' && r <= 'z' || r >= 'A' && r <= 'Z' || r > 127
	}
	for i < len(rs) {
		r := rs[i]
		j := i + 1
		switch {
		case r == '\n':
		case r == ' ' || r == '\t':
			for j < len(rs) && (rs[j] == ' ' || rs[j] == '\t') {
				j++
			}
		case isId(r):
			for j < len(rs) && isId(rs[j]) {
				j++
			}
		case r == '"':
			for j < len(rs) && rs[j] != '"' && rs[j] != '\n' {
				if rs[j] == '\\' {
					j++
				}
				j++
			}
			if j < len(rs) && rs[j] == '"' {
				j++
			}
			if j > len(rs) {
				j = len(rs)
			}
		case r == '/' && j < len(rs) && rs[j] == '/':
			for j < len(rs) && rs[j] != '\n' {
				j++
			}
		case r == '/' && j < len(rs) && rs[j] == '*':
			j++
			for j < len(rs) && !(rs[j] == '/' && rs[j-1] == '*' && j > i+2) {
				j++
			}
			if j < len(rs) {
				j++
			}
		case r == '|':
			for j < len(rs) && rs[j] != '\n' {
				j++
			}
		}
		out = append(out, string(rs[i:j]))
		i = j
	}
	return out
}

// PointIn reports whether p lies within src: 0 <= line < #lines and
// 0 <= column <= rune length of that line (the EOL / EOF column is allowed).
func PointIn(p errpos.Point, lines []string) bool {
	if p.Line < 0 || p.Line >= len(lines) || p.Column < 0 {
		return false
	}
	return p.Column <= utf8.RuneCountInString(lines[p.Line])
}

func LE(a, b errpos.Point) bool {
	return a.Line < b.Line || a.Line == b.Line && a.Column <= b.Column
}

var pointType = reflect.TypeOf(errpos.Point{})

// WalkSpans visits every (Start, End) pair of every struct reachable from v
// (exported or not) that has both a Start and an End field of type errpos.Point.
func WalkSpans(v reflect.Value, path string, visit func(path string, start, end errpos.Point)) {
	switch v.Kind() {
	case reflect.Ptr, reflect.Interface:
		if v.IsNil() {
			return
		}
		WalkSpans(v.Elem(), path, visit)
	case reflect.Slice, reflect.Array:
		for i := 0; i < v.Len(); i++ {
			WalkSpans(v.Index(i), fmt.Sprintf("%s[]", path), visit)
		}
	case reflect.Struct:
		t := v.Type()
		if t == pointType {
			return
		}
		sf, ok1 := t.FieldByName("Start")
		ef, ok2 := t.FieldByName("End")
		if ok1 && ok2 && sf.Type == pointType && ef.Type == pointType && len(sf.Index) == 1 && len(ef.Index) == 1 {
			visit(path+"<"+t.Name()+">", pt(v.FieldByIndex(sf.Index)), pt(v.FieldByIndex(ef.Index)))
		}
		for i := 0; i < v.NumField(); i++ {
			f := t.Field(i)
			WalkSpans(v.Field(i), path+"."+f.Name, visit)
		}
	}
}

func pt(v reflect.Value) errpos.Point {
	return errpos.Point{Line: int(v.Field(0).Int()), Column: int(v.Field(1).Int())}
}

func Lines(src string) []string { return strings.Split(src, "\n") }
