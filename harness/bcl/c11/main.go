// C11: BCL parser is total and every diagnostic points inside the file.
package main

import (
	"fmt"
	"reflect"
	"strconv"
	"strings"

	"github.com/pentops/j5/internal/bcl/errpos"
	"github.com/pentops/j5/internal/bcl/internal/parser"
	"github.com/pentops/j5/internal/bcl/zzverif/bgen"
	"github.com/pentops/j5/internal/zzverif/vk"
)

func main() {
	vk.Main(&vk.Check{
		ID:   "C11",
		Rule: "sequences: every concatenation of <=N symbols of the lexical alphabet Sigma (one case per sequence, distinct by construction), N=4 quick / 5 thorough; mutations: every single-chunk deletion, insertion of every Sigma symbol at every chunk boundary, and adjacent swap of every fixture; each case is parsed in fail-fast and collect-all mode; non-trivial = input with at least one non-blank symbol",
		Assumptions: []string{
			"termination is decided by a progress watchdog (120 s without progress on an input of a few bytes), not by a termination proof",
			"inputs outside the alphabet closure (longer sequences, other runes) are not covered",
		},
		Bounds:         map[string]any{"sigma": bgen.Sigma, "quick_len": 4, "thorough_len": 5},
		Isolate:        true,
		QuickBudget:    900,
		ThoroughBudget: 7200,
		Run:            run,
	})
}

type diag struct {
	pos string
	msg string
}

func first(err error) (diag, int, bool) {
	ews, ok := errpos.AsErrorsWithSource(err)
	if !ok {
		return diag{}, 0, false
	}
	if len(ews.Errors) == 0 {
		return diag{}, 0, true
	}
	e := ews.Errors[0]
	d := diag{msg: fmt.Sprint(e.Err)}
	if e.Pos != nil {
		d.pos = fmt.Sprintf("%d:%d-%d:%d", e.Pos.Start.Line, e.Pos.Start.Column, e.Pos.End.Line, e.Pos.End.Column)
	} else {
		d.pos = "nil"
	}
	return d, len(ews.Errors), true
}

// checkOne applies the whole C11 oracle to one input.
func checkOne(t *vk.T, src string, coord string) {
	t.Coord(coord)
	lines := bgen.Lines(src)
	var firsts [2]diag
	var had [2]bool
	for mode, ff := range []bool{true, false} {
		mname := "collect-all"
		if ff {
			mname = "fail-fast"
		}
		tree, err := parser.ParseFile(src, ff)
		t.Step()
		if err == nil {
			if tree == nil {
				t.Violation("nil-tree-nil-error|"+mname, "ParseFile returned (nil, nil)", src, nil, nil)
				return
			}
			if len(tree.Errors) > 0 {
				t.Violation("tree-with-errors-nil-error|"+mname, "ParseFile returned nil error but File.Errors is non-empty", src, nil, nil)
			}
			bad := ""
			bgen.WalkSpans(reflect.ValueOf(tree), "File", func(path string, s, e errpos.Point) {
				if bad != "" {
					return
				}
				if !bgen.PointIn(s, lines) || !bgen.PointIn(e, lines) {
					bad = fmt.Sprintf("node-position-outside-input|%s", stripIdx(path))
				} else if !bgen.LE(s, e) {
					bad = fmt.Sprintf("node-start-after-end|%s", stripIdx(path))
				}
				if bad != "" {
					bad += fmt.Sprintf("\x00%d:%d-%d:%d", s.Line, s.Column, e.Line, e.Column)
				}
			})
			if bad != "" {
				p := strings.SplitN(bad, "\x00", 2)
				t.Violation(p[0], fmt.Sprintf("tree node %s has span %s (0-based line:col) for input %q", p[0], p[1], src), src, "0 <= start <= end <= end of input", p[1])
			}
			continue
		}
		had[mode] = true
		d, n, ok := first(err)
		if !ok {
			t.Violation("non-diagnostic-error|"+mname, fmt.Sprintf("ParseFile(%q) returned an error that is not a list of diagnostics: %v", src, err), src, nil, err.Error())
			continue
		}
		if n == 0 {
			t.Violation("empty-diagnostics|"+mname, fmt.Sprintf("ParseFile(%q) returned an error with an empty diagnostics list", src), src, nil, nil)
			continue
		}
		firsts[mode] = d
		ews, _ := errpos.AsErrorsWithSource(err)
		for _, e := range ews.Errors {
			if e.Pos == nil {
				t.Violation("diagnostic-without-position|"+mname, fmt.Sprintf("diagnostic %q has no position (input %q)", e.Err, src), src, nil, nil)
				continue
			}
			s, en := e.Pos.Start, e.Pos.End
			if !bgen.PointIn(s, lines) || !bgen.PointIn(en, lines) {
				t.Violation("diagnostic-position-outside-input|"+mname+"|"+msgClass(fmt.Sprint(e.Err)), fmt.Sprintf("diagnostic %q at %d:%d-%d:%d lies outside input %q", e.Err, s.Line, s.Column, en.Line, en.Column, src), src, nil, nil)
			} else if !bgen.LE(s, en) {
				t.Violation("diagnostic-start-after-end|"+mname+"|"+msgClass(fmt.Sprint(e.Err)), fmt.Sprintf("diagnostic %q has start %d:%d after end %d:%d (input %q)", e.Err, s.Line, s.Column, en.Line, en.Column, src), src, nil, nil)
			}
		}
		for _, ctx := range []int{0, 2} {
			_ = ews.HumanString(ctx) // must not panic
			t.Step()
		}
		_ = err.Error()
	}
	if had[0] != had[1] {
		t.Violation("modes-disagree-on-acceptance", fmt.Sprintf("fail-fast error=%v, collect-all error=%v for input %q", had[0], had[1], src), src, nil, nil)
	} else if had[0] && firsts[0] != firsts[1] {
		t.Violation("first-diagnostic-differs", fmt.Sprintf("fail-fast reports %v, collect-all reports %v first (input %q)", firsts[0], firsts[1], src), src, firsts[0], firsts[1])
	}
	switch {
	case had[0]:
		t.Class("rejected")
	default:
		t.Class("accepted")
	}
}

// stripIdx drops the incidental nesting depth from a node path.
func stripIdx(p string) string {
	for strings.Contains(p, ".Body.Statements[].Body.Statements[]") {
		p = strings.Replace(p, ".Body.Statements[].Body.Statements[]", ".Body.Statements[]", 1)
	}
	return p
}

func msgClass(m string) string {
	for i, c := range m {
		if c == ':' || c == ',' || c == '(' {
			return m[:i]
		}
	}
	if len(m) > 30 {
		return m[:30]
	}
	return m
}

func run(r *vk.Runner) {
	n := 4
	if !r.Quick() {
		n = 5
	}
	sig := bgen.Sigma
	r.Family("sequences")
	idx := make([]int, 0, n)
	var rec func(depth int)
	var sb strings.Builder
	rec = func(depth int) {
		if r.Stopped() {
			return
		}
		// the sequence idx itself (including the empty one)
		if r.Mine() {
			sb.Reset()
			blank := true
			id := make([]string, len(idx))
			for i, k := range idx {
				sb.WriteString(sig[k])
				id[i] = strconv.Itoa(k)
				if k > 2 {
					blank = false
				}
			}
			src := sb.String()
			r.Do("seq:"+strings.Join(id, ","), func(t *vk.T) {
				if !blank {
					t.Nontrivial()
				}
				checkOne(t, src, "seq")
				if len(idx) == n && len(src) > 8 {
					t.Sample(src)
				}
			})
		} else {
			r.SkipCase()
		}
		if depth == n {
			return
		}
		for k := range sig {
			idx = append(idx, k)
			rec(depth + 1)
			idx = idx[:len(idx)-1]
		}
	}
	rec(0)

	r.Family("mutations")
	fx := bgen.Fixtures()
	names := make([]string, 0, len(fx))
	for k := range fx {
		names = append(names, k)
	}
	sortStrings(names)
	for _, name := range names {
		src := fx[name]
		ch := bgen.Chunks(src)
		join := func(parts ...[]string) string {
			var sb strings.Builder
			for _, p := range parts {
				for _, s := range p {
					sb.WriteString(s)
				}
			}
			return sb.String()
		}
		r.Do("fix:"+name+":orig", func(t *vk.T) { t.Nontrivial(); checkOne(t, src, "fixture"); t.Sample(src) })
		for i := range ch {
			i := i
			r.Do(fmt.Sprintf("fix:%s:del:%d", name, i), func(t *vk.T) {
				t.Nontrivial()
				checkOne(t, join(ch[:i], ch[i+1:]), "mutation-delete")
			})
			if i+1 < len(ch) {
				r.Do(fmt.Sprintf("fix:%s:swap:%d", name, i), func(t *vk.T) {
					t.Nontrivial()
					checkOne(t, join(ch[:i], []string{ch[i+1], ch[i]}, ch[i+2:]), "mutation-swap")
				})
			}
			// truncation at every chunk boundary
			r.Do(fmt.Sprintf("fix:%s:trunc:%d", name, i), func(t *vk.T) {
				t.Nontrivial()
				checkOne(t, join(ch[:i]), "mutation-truncate")
			})
		}
		for i := 0; i <= len(ch); i++ {
			for k := range sig {
				i, k := i, k
				if !r.Mine() {
					r.SkipCase()
					continue
				}
				r.Do(fmt.Sprintf("fix:%s:ins:%d:%d", name, i, k), func(t *vk.T) {
					t.Nontrivial()
					checkOne(t, join(ch[:i], []string{sig[k]}, ch[i:]), "mutation-insert")
				})
			}
		}
	}
}

func sortStrings(s []string) {
	for i := 1; i < len(s); i++ {
		for j := i; j > 0 && s[j] < s[j-1]; j-- {
			s[j], s[j-1] = s[j-1], s[j]
		}
	}
}
