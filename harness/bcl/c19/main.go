// C19: editor format edits are well-formed and equal the formatter.
package main

import (
	"context"
	"fmt"
	"sort"
	"strings"

	"github.com/pentops/j5/internal/bcl/genlsp"
	"github.com/pentops/j5/internal/bcl/internal/parser"
	"github.com/pentops/j5/internal/bcl/zzverif/bgen"
	"github.com/pentops/j5/internal/zzverif/vk"
)

var _ = context.Background

func main() {
	vk.Main(&vk.Check{
		ID:   "C19",
		Rule: "same source space as C09 (lines of <=N symbols, files of <=L lines x indentation x terminal newline, literal characters, description families, fixtures and their single-chunk deletions) plus layout families (trailing comments, several statements on one line, multi-line tokens, leading/trailing blank runs); one case per source; non-trivial = source accepted by the formatter with at least one statement or comment",
		Assumptions: []string{
			"an edit (FromLine, ToLine, NewText) replaces the whole lines [FromLine, ToLine) by NewText, exactly as genlsp/format.go converts it to an LSP range (FromLine,0)-(ToLine,0)",
			"the result is compared with Fmt(source) after removing trailing blank lines on both sides, as the property allows",
		},
		Bounds:         map[string]any{"line_sigma": bgen.LineSigma, "file_lines": bgen.FileLines, "indents": bgen.Indents},
		Isolate:        true,
		QuickBudget:    900,
		ThoroughBudget: 7200,
		Run:            run,
	})
}

func shape(src string) string {
	// structural coordinates of a layout: statements per line and multi-line tokens
	toks, ok, _ := parser.NewLexer(src).AllTokens(true)
	if !ok {
		return "?"
	}
	set := map[string]bool{}
	for _, t := range toks {
		switch t.Type {
		case parser.COMMENT, parser.BLOCK_COMMENT, parser.DESCRIPTION, parser.RBRACE:
			set[t.Type.String()] = true
		}
		if t.End.Line > t.Start.Line && t.Type != parser.EOL {
			set["multiline-"+t.Type.String()] = true
		}
	}
	var ks []string
	for k := range set {
		ks = append(ks, k)
	}
	sort.Strings(ks)
	return strings.Join(ks, "+")
}

func trimTrailingBlank(s string) string {
	lines := strings.Split(s, "\n")
	for len(lines) > 0 && strings.TrimSpace(lines[len(lines)-1]) == "" {
		lines = lines[:len(lines)-1]
	}
	return strings.Join(lines, "\n")
}

func checkDiffs(t *vk.T, src, coord string) bool {
	t.Coord(coord)
	want, err := parser.Fmt(src)
	t.Step()
	if err != nil {
		t.Class("formatter-rejects")
		return false
	}
	if strings.TrimSpace(want) != "" {
		t.Nontrivial()
	}
	diffs, err := parser.FmtDiffs(src)
	t.Step()
	if err != nil {
		t.Violation("fmtdiffs-fails|"+coord, fmt.Sprintf("FmtDiffs fails on a source Fmt accepts: %v\nsource: %q", err, src), src, nil, err.Error())
		return true
	}
	lines := strings.Split(src, "\n")
	nl := len(lines)
	for i, d := range diffs {
		if d.FromLine < 0 || d.FromLine > d.ToLine || d.ToLine > nl {
			t.Violation("edit-out-of-range|"+coord, fmt.Sprintf("edit %d = [%d,%d) is not within 0 <= from <= to <= %d lines\nsource: %q\nedits: %+v", i, d.FromLine, d.ToLine, nl, src, diffs), src, nil, fmt.Sprintf("%+v", diffs))
			return true
		}
		if i > 0 {
			p := diffs[i-1]
			if d.FromLine < p.FromLine || d.FromLine < p.ToLine || (d.FromLine == p.FromLine && d.ToLine == p.ToLine) {
				t.Violation("edits-overlap-or-unordered|"+coord, fmt.Sprintf("edits %d [%d,%d) and %d [%d,%d) overlap or are out of order\nsource: %q\nedits: %+v", i-1, p.FromLine, p.ToLine, i, d.FromLine, d.ToLine, src, diffs), src, nil, fmt.Sprintf("%+v", diffs))
				return true
			}
		}
	}
	// apply bottom-up on the line array
	cur := append([]string{}, lines...)
	for i := len(diffs) - 1; i >= 0; i-- {
		d := diffs[i]
		var repl []string
		if d.NewText != "" {
			repl = strings.Split(strings.TrimSuffix(d.NewText, "\n"), "\n")
		}
		next := append([]string{}, cur[:d.FromLine]...)
		next = append(next, repl...)
		next = append(next, cur[d.ToLine:]...)
		cur = next
	}
	got := strings.Join(cur, "\n")
	if trimTrailingBlank(got) != trimTrailingBlank(want) {
		t.Violation("applied-edits-differ-from-fmt|"+coord, fmt.Sprintf("applying the edits does not give Fmt(source)\nsource: %q\nedits: %+v\napplied: %q\nFmt:     %q", src, diffs, got, want), src, want, got)
		return true
	}
	// the LSP formatter must offer exactly these edits as line ranges
	lsp, err := genlsp.ZZVerifFormat(src)
	t.Step()
	if err != nil {
		t.Violation("lsp-format-fails|"+coord, fmt.Sprintf("LSP Format fails: %v\nsource: %q", err, src), src, nil, err.Error())
		return true
	}
	if len(lsp) != len(diffs) {
		t.Violation("lsp-edits-differ|"+coord, fmt.Sprintf("LSP Format offers %d edits, FmtDiffs %d\nsource: %q", len(lsp), len(diffs), src), src, nil, nil)
		return true
	}
	for i, e := range lsp {
		d := diffs[i]
		if int(e.Range.Start.Line) != d.FromLine || int(e.Range.End.Line) != d.ToLine || e.Range.Start.Character != 0 || e.Range.End.Character != 0 || e.NewText != d.NewText {
			t.Violation("lsp-edits-differ|"+coord, fmt.Sprintf("LSP edit %d = %+v differs from FmtDiffs edit %+v\nsource: %q", i, e, d, src), src, fmt.Sprintf("%+v", d), fmt.Sprintf("%+v", e))
			return true
		}
	}
	t.Class(fmt.Sprintf("ok-%d-edits", min(len(diffs), 4)))
	return true
}

func run(r *vk.Runner) {
	n, l := 5, 3
	if !r.Quick() {
		n, l = 6, 4
	}
	r.Family("lines")
	bgen.Seqs(bgen.LineSigma, n, r.Stopped, r.Mine, r.SkipCase, func(id, src string, full bool) {
		r.Do(id, func(t *vk.T) {
			if checkDiffs(t, src, "line") && full {
				t.Sample(src)
			}
		})
	})
	r.Family("files")
	bgen.Files(l, r.Stopped, r.Mine, r.SkipCase, func(id, src string) {
		r.Do(id, func(t *vk.T) {
			if checkDiffs(t, src, "file") && len(src) > 30 {
				t.Sample(src)
			}
		})
	})
	r.Family("layouts")
	stmts := []string{"a {", "a b", "k = 1", "k += [1]", "}", "| d", "a | d", "/*c*/", "k = \"x\\\ny\"", "/* m\nn */", "| d\n| e"}
	trail := []string{"", " // tc", " /*c*/", " }", " k = 1", " /* m\nn */"}
	blanks := []string{"", "\n", "\n\n\n"}
	for i, s1 := range stmts {
		for j, tr := range trail {
			for k, s2 := range stmts {
				for b1, lead := range blanks {
					for b2, mid := range blanks {
						for b3, end := range []string{"", "\n", "\n\n\n"} {
							src := lead + s1 + tr + "\n" + mid + s2 + end
							r.Do(fmt.Sprintf("layout:%d.%d.%d.%d.%d.%d", i, j, k, b1, b2, b3), func(t *vk.T) {
								checkDiffs(t, src, "layout")
							})
						}
					}
				}
			}
		}
	}
	r.Family("literals")
	for _, c := range bgen.LiteralChars() {
		q := bgen.QuoteString("p" + string(c) + "q")
		src := "  k = " + q + "\n\n\n  blk " + q + " {\n}\n"
		r.Do(fmt.Sprintf("lit:U+%04X", c), func(t *vk.T) { checkDiffs(t, src, "literal") })
	}
	r.Family("descriptions")
	df := bgen.DescriptionFiles()
	var ks []string
	for k := range df {
		ks = append(ks, k)
	}
	sort.Strings(ks)
	for _, k := range ks {
		src := df[k]
		r.Do("desc:"+k, func(t *vk.T) { checkDiffs(t, src, "description") })
	}
	r.Family("description-blocks")
	dn := 5
	if !r.Quick() {
		dn = 7
	}
	bgen.DescriptionBlocks(dn, func(id, src string) {
		r.Do(id, func(t *vk.T) { checkDiffs(t, src, "description-block") })
	})
	r.Family("fixtures")
	fx := bgen.Fixtures()
	ks = ks[:0]
	for k := range fx {
		ks = append(ks, k)
	}
	sort.Strings(ks)
	for _, k := range ks {
		src := fx[k]
		r.Do("fixture:"+k, func(t *vk.T) { checkDiffs(t, src, "fixture"); t.Sample(src) })
		ch := bgen.Chunks(src)
		for i := range ch {
			m := strings.Join(ch[:i], "") + strings.Join(ch[i+1:], "")
			r.Do(fmt.Sprintf("fixture:%s:del:%d", k, i), func(t *vk.T) { checkDiffs(t, m, "fixture-mutation") })
			m2 := strings.Join(ch[:i], "") + "  \n\n" + strings.Join(ch[i:], "")
			r.Do(fmt.Sprintf("fixture:%s:blank:%d", k, i), func(t *vk.T) { checkDiffs(t, m2, "fixture-mutation") })
		}
	}
}
