// Package gbridge turns j5s programs (gj5s) into codec test schemas (gpb):
// the descriptors are the ones the real j5s compiler produced, the model that
// predicts values and wire format is derived from the j5s *source* declaration.
package gbridge

import (
	"context"
	"fmt"
	"strings"

	"github.com/pentops/j5/internal/zzverif/gj5s"
	"github.com/pentops/j5/internal/zzverif/gpb"
	"google.golang.org/protobuf/proto"
	"google.golang.org/protobuf/reflect/protodesc"
	"google.golang.org/protobuf/reflect/protoreflect"
	"google.golang.org/protobuf/reflect/protoregistry"
	"google.golang.org/protobuf/types/descriptorpb"
	"google.golang.org/protobuf/types/dynamicpb"
)

var kinds = map[gj5s.TKind]gpb.Kind{
	gj5s.TString: gpb.KString, gj5s.TBool: gpb.KBool, gj5s.TInt32: gpb.KInt32, gj5s.TInt64: gpb.KInt64,
	gj5s.TUint32: gpb.KUint32, gj5s.TUint64: gpb.KUint64, gj5s.TFloat32: gpb.KFloat, gj5s.TFloat64: gpb.KDouble,
	gj5s.TBytes: gpb.KBytes, gj5s.TKey: gpb.KKey, gj5s.TKeyID62: gpb.KKeyID62, gj5s.TKeyUUID: gpb.KKeyUUID,
	gj5s.TDate: gpb.KDate, gj5s.TDecimal: gpb.KDecimal, gj5s.TTimestamp: gpb.KTimestamp,
}

type builder struct {
	byDecl map[*gj5s.Decl]*gpb.Message
	names  map[*gpb.Message]string // proto full name
	enums  map[*gj5s.Decl]*gpb.Enum
	open   map[*gj5s.Decl]bool
	err    error
}

func (b *builder) enum(d *gj5s.Decl, name string) *gpb.Enum {
	if e, ok := b.enums[d]; ok {
		return e
	}
	prefix := d.Prefix
	if prefix == "" {
		prefix = gj5s.Screaming(name) + "_"
	}
	e := &gpb.Enum{Name: name, Prefix: prefix, Values: []gpb.EnumVal{{Short: "UNSPECIFIED", Num: 0}}}
	opts := d.Options
	if len(opts) > 0 && strings.HasSuffix(opts[0].Name, "UNSPECIFIED") && !d.ExplicitUnspecified {
		// a first option ending in UNSPECIFIED is the zero option, spelled by the author
		e.Values[0].Short = strings.TrimPrefix(opts[0].Name, prefix)
		opts = opts[1:]
	}
	for i, o := range opts {
		e.Values = append(e.Values, gpb.EnumVal{Short: o.Name, Num: int32(i + 1)})
	}
	b.enums[d] = e
	return e
}

// message builds the model of a declaration whose proto full name is full.
func (b *builder) message(d *gj5s.Decl, pkg, full string) *gpb.Message {
	if m, ok := b.byDecl[d]; ok {
		if b.open[d] {
			b.err = fmt.Errorf("recursive type %s", full)
		}
		return m
	}
	short := full[strings.LastIndex(full, ".")+1:]
	m := &gpb.Message{Name: short, IsOneof: d.Kind == gj5s.DOneof, ExplicitOneofOption: d.Kind == gj5s.DOneof}
	b.byDecl[d] = m
	b.names[m] = full
	b.open[d] = true
	for i, f := range d.Fields {
		gf := &gpb.Field{Name: gj5s.Snake(f.Name), JSON: f.Name, Num: int32(i + 1)}
		t := f.T
		switch t.K {
		case gj5s.TArray:
			gf.Label = gpb.Repeated
			t = t.Elem
		case gj5s.TMap:
			gf.Label = gpb.Map
			t = t.Elem
		default:
			if f.Optional {
				gf.Label = gpb.Optional
			}
		}
		switch t.K {
		case gj5s.TObject, gj5s.TOneof, gj5s.TEnum:
			var target *gj5s.Decl
			var tfull, tpkg string
			if t.Ref != nil {
				target = t.Ref.To
				tpkg = target.File.Package()
				tfull = tpkg + "." + target.Name
			} else {
				target = t.Inline
				name := gj5s.UpperFirst(f.Name)
				if t.NameOverride != "" {
					name = t.NameOverride
				}
				tpkg = pkg
				tfull = full + "." + name
			}
			switch t.K {
			case gj5s.TEnum:
				gf.Kind = gpb.KEnum
				gf.Enum = b.enum(target, tfull[strings.LastIndex(tfull, ".")+1:])
			case gj5s.TOneof:
				gf.Kind = gpb.KOneof
				gf.Msg = b.message(target, tpkg, tfull)
			default:
				gf.Kind = gpb.KObject
				if f.Flatten {
					gf.Kind = gpb.KFlatten
				}
				gf.Msg = b.message(target, tpkg, tfull)
			}
		case gj5s.TAny, gj5s.TArray, gj5s.TMap:
			b.err = fmt.Errorf("unsupported field type %s", t.K)
		default:
			gf.Kind = kinds[t.K]
		}
		m.Fields = append(m.Fields, gf)
	}
	delete(b.open, d)
	return m
}

// Cases: one codec schema per top-level object of every program that compiles,
// has no Any fields and no recursive types.
func Cases(progs []*gj5s.Case) []*gpb.Case {
	var out []*gpb.Case
	for _, pc := range progs {
		bundle := pc.P.Bundle()
		ps, err := bundle.NewPackageSet()
		if err != nil {
			continue
		}
		var files []protoreflect.FileDescriptor
		ok := true
		for _, pkg := range bundle.Packages {
			fs, err := ps.CompilePackage(context.Background(), pkg)
			if err != nil {
				ok = false
				break
			}
			for _, f := range fs {
				files = append(files, f)
			}
		}
		if !ok {
			continue
		}
		reg, err := link(files)
		if err != nil {
			continue
		}
		types := dynamicpb.NewTypes(reg)
		for _, f := range pc.P.Files {
			for _, d := range f.Decls {
				decl, isDecl := d.(*gj5s.Decl)
				if !isDecl || decl.Kind != gj5s.DObject {
					continue
				}
				b := &builder{byDecl: map[*gj5s.Decl]*gpb.Message{}, names: map[*gpb.Message]string{}, enums: map[*gj5s.Decl]*gpb.Enum{}, open: map[*gj5s.Decl]bool{}}
				root := b.message(decl, f.Package(), f.Package()+"."+decl.Name)
				if b.err != nil {
					continue
				}
				root.Full = len(root.Fields) <= 2
				names := b.names
				missing := false
				for _, full := range names {
					if _, err := reg.FindDescriptorByName(protoreflect.FullName(full)); err != nil {
						missing = true
					}
				}
				if missing {
					continue // naming is C02's business
				}
				s := &gpb.Schema{Package: f.Package(), Messages: []*gpb.Message{root}, Root: root, Files: reg, Types: types, Prebuilt: true}
				s.Lookup = func(m *gpb.Message) protoreflect.MessageDescriptor {
					d, err := reg.FindDescriptorByName(protoreflect.FullName(names[m]))
					if err != nil {
						panic(err)
					}
					return d.(protoreflect.MessageDescriptor)
				}
				var under *gpb.Field
				if len(root.Fields) > 0 {
					under = root.Fields[0]
				}
				out = append(out, &gpb.Case{ID: "j5s/" + pc.ID + "/" + f.Package() + "." + decl.Name, Coord: "j5s|" + pc.Coord, Schema: s, Under: under, Holder: root})
			}
		}
	}
	return out
}

type fallback struct{ own *protoregistry.Files }

func (f fallback) FindFileByPath(p string) (protoreflect.FileDescriptor, error) {
	if fd, err := f.own.FindFileByPath(p); err == nil {
		return fd, nil
	}
	return protoregistry.GlobalFiles.FindFileByPath(p)
}

func (f fallback) FindDescriptorByName(n protoreflect.FullName) (protoreflect.Descriptor, error) {
	if d, err := f.own.FindDescriptorByName(n); err == nil {
		return d, nil
	}
	return protoregistry.GlobalFiles.FindDescriptorByName(n)
}

// link re-links the compiled files of the bundle (through bytes, as generated
// code would carry them) against the process-wide registry, so that the well-
// known and j5 types are the same descriptors the codec's Go types use.
func link(files []protoreflect.FileDescriptor) (*protoregistry.Files, error) {
	own := &protoregistry.Files{}
	done := map[string]bool{}
	var add func(fd protoreflect.FileDescriptor) error
	add = func(fd protoreflect.FileDescriptor) error {
		if done[fd.Path()] {
			return nil
		}
		done[fd.Path()] = true
		if _, err := protoregistry.GlobalFiles.FindFileByPath(fd.Path()); err == nil {
			return nil
		}
		imps := fd.Imports()
		for i := 0; i < imps.Len(); i++ {
			if err := add(imps.Get(i).FileDescriptor); err != nil {
				return err
			}
		}
		b, err := proto.Marshal(protodesc.ToFileDescriptorProto(fd))
		if err != nil {
			return err
		}
		fdp := &descriptorpb.FileDescriptorProto{}
		if err := proto.Unmarshal(b, fdp); err != nil {
			return err
		}
		nfd, err := protodesc.NewFile(fdp, fallback{own})
		if err != nil {
			return err
		}
		return own.RegisterFile(nfd)
	}
	for _, fd := range files {
		if err := add(fd); err != nil {
			return nil, err
		}
	}
	return own, nil
}

// ThoroughPrograms adds the field-pair programs.
func ThoroughPrograms() []*gj5s.Case {
	return append(Programs(), gj5s.PairFieldCases()...)
}

// Programs: the j5s families whose declarations the bridge understands.
func Programs() []*gj5s.Case {
	var out []*gj5s.Case
	out = append(out, gj5s.SingleFieldCases()...)
	out = append(out, gj5s.NestingCases()...)
	out = append(out, gj5s.EnumCases()...)
	out = append(out, gj5s.ReferenceCases()...)
	out = append(out, gj5s.AnnotationCases()...)
	out = append(out, gj5s.DeterminismBundles()...)
	return out
}
