// C04: schema read back from compiled proto equals the j5s source schema.
package main

import (
	"context"
	"fmt"
	"sort"
	"strings"

	"github.com/pentops/j5/gen/j5/schema/v1/schema_j5pb"
	"github.com/pentops/j5/internal/zzverif/gj5s"
	"github.com/pentops/j5/internal/zzverif/vk"
	"github.com/pentops/j5/lib/j5schema"
	"google.golang.org/protobuf/encoding/prototext"
	"google.golang.org/protobuf/proto"
	"google.golang.org/protobuf/reflect/protoreflect"
	"google.golang.org/protobuf/reflect/protoregistry"
)

var ctx = context.Background()

func main() {
	gj5s.Silence()
	vk.Main(&vk.Check{
		ID:   "C04",
		Rule: "programs: the single-field matrix (22 field types x plain/array/map x 5 presence spellings), nesting (inline types to depth 3, name overrides), enums (options, explicit UNSPECIFIED, prefix override, descriptions), references (10 forms x 3 kinds), descriptions, flatten, and the full rule matrix (every validation rule and list rule of every field type at absent / zero / boundary / both booleans, x required); each is compiled, reflected from the in-memory descriptors (SchemaSetFromFiles) and again from the printed .proto text re-parsed with protocompile; a case = one program; distinct by source text; non-trivial = every case",
		Assumptions: []string{
			"expected schemas are built from the program model (harness/gj5s/schema.go); nested types are named Parent_Child as j5schema names them; empty rule / ext / list-rule messages are equal to absent ones; an exclusive flag that is false is equal to an absent one",
			"compiled descriptors are re-linked through FileDescriptorProto bytes so that options are typed (the route the j5 tool itself takes)",
		},
		Isolate:        true,
		QuickBudget:    900,
		ThoroughBudget: 3600,
		Run:            run,
	})
}

func reflect(files []protoreflect.FileDescriptor) (map[string]*schema_j5pb.RootSchema, error) {
	reg, err := gj5s.Relink(files)
	if err != nil {
		return nil, fmt.Errorf("relink: %w", err)
	}
	want := map[string]bool{}
	for _, f := range files {
		want[f.Path()] = true
	}
	ss, err := j5schema.SchemaSetFromFiles(reg, func(fd protoreflect.FileDescriptor) bool { return want[fd.Path()] })
	if err != nil {
		return nil, err
	}
	out := map[string]*schema_j5pb.RootSchema{}
	for _, pkg := range ss.Packages {
		for name, ref := range pkg.Schemas {
			if ref.To == nil {
				continue
			}
			if !strings.HasPrefix(pkg.Name, "j5.") && !strings.HasPrefix(pkg.Name, "google.") {
				out[pkg.Name+"/"+name] = ref.To.ToJ5Root()
			}
		}
	}
	return out, nil
}

var _ = protoregistry.GlobalFiles

func txt(m proto.Message) string {
	return prototext.MarshalOptions{Multiline: false}.Format(m)
}

func checkCase(t *vk.T, c *gj5s.Case) {
	fam := c.Family
	t.Coord(c.Coord)
	t.SigCoord(fam)
	t.Nontrivial()
	b := c.P.Bundle()
	src := ""
	for _, f := range c.P.Files {
		src += "// " + f.Path() + "\n" + b.Files[f.Path()] + "\n"
	}
	t.Key(src)
	ps, err := b.NewPackageSet()
	if err != nil {
		panic(err)
	}
	var files []protoreflect.FileDescriptor
	seen := map[string]bool{}
	for _, pkg := range b.Packages {
		out, err := ps.CompilePackage(ctx, pkg)
		t.Step()
		if err != nil {
			t.Class("does-not-compile") // C07's business
			return
		}
		for _, f := range out {
			if !seen[f.Path()] {
				seen[f.Path()] = true
				files = append(files, f)
			}
		}
	}
	got, err := reflect(files)
	t.Step()
	if err != nil {
		t.Violation("reflection-fails|"+fam+"|"+vk.ErrTail(err), fmt.Sprintf("the compiled descriptors cannot be reflected: %v\n%s", err, src), src, nil, err.Error())
		return
	}
	want := c.P.ExpectedSchemas()
	var names []string
	for k := range want {
		names = append(names, k)
	}
	sort.Strings(names)
	for _, k := range names {
		w := want[k]
		g := got[k]
		if g == nil {
			var have []string
			for x := range got {
				have = append(have, x)
			}
			sort.Strings(have)
			t.Violation("schema-missing|"+fam, fmt.Sprintf("schema %s is not reflected (have %v)\n%s", k, have, src), src, nil, nil)
			return
		}
		wn, gn := proto.Clone(w), proto.Clone(g)
		gj5s.NormalizeSchema(wn)
		gj5s.NormalizeSchema(gn)
		if !proto.Equal(wn, gn) {
			t.Violation("schema-differs|"+pairScope(c, wn.(*schema_j5pb.RootSchema), gn.(*schema_j5pb.RootSchema))+"|"+diffClause(wn.(*schema_j5pb.RootSchema), gn.(*schema_j5pb.RootSchema)), fmt.Sprintf("schema %s read back from the compiled proto differs from the source schema\nexpected: %s\nread back: %s\n%s", k, txt(wn), txt(gn), src), src, txt(wn), txt(gn))
			return
		}
	}
	// the same schemas through SchemaCache.Schema, asked in three orders
	if reg, err := gj5s.Relink(files); err == nil {
		var mds []protoreflect.MessageDescriptor
		var collect func(m protoreflect.MessageDescriptors)
		collect = func(m protoreflect.MessageDescriptors) {
			for i := 0; i < m.Len(); i++ {
				if !m.Get(i).IsMapEntry() {
					mds = append(mds, m.Get(i))
					collect(m.Get(i).Messages())
				}
			}
		}
		for _, f := range files {
			if fd, err := reg.FindFileByPath(f.Path()); err == nil {
				collect(fd.Messages())
			}
		}
		orders := [][]protoreflect.MessageDescriptor{mds, reversed(mds), byDepth(mds)}
		for oi, order := range orders {
			cache := j5schema.NewSchemaCache()
			for _, md := range order {
				sch, err := cache.Schema(md)
				t.Step()
				if err != nil {
					t.Violation("cache-reflection-fails|"+fam+"|"+vk.ErrTail(err), fmt.Sprintf("SchemaCache.Schema(%s) fails: %v\n%s", md.FullName(), err, src), src, nil, err.Error())
					return
				}
				key := string(md.ParentFile().Package()) + "/" + strings.ReplaceAll(strings.TrimPrefix(string(md.FullName()), string(md.ParentFile().Package())+"."), ".", "_")
				if g := got[key]; g != nil && !proto.Equal(g, sch.ToJ5Root()) {
					t.Violation("cache-differs-from-set|"+fam, fmt.Sprintf("SchemaCache.Schema(%s) (query order %d) differs from SchemaSetFromFiles\nset:   %s\ncache: %s\n%s", md.FullName(), oi, txt(g), txt(sch.ToJ5Root()), src), src, txt(g), txt(sch.ToJ5Root()))
					return
				}
			}
		}
	}
	// the same schemas from the printed text
	texts := map[string]string{}
	for _, f := range files {
		s, err := gj5s.PrintFD(f)
		if err != nil {
			t.Class("does-not-print") // C05's business
			return
		}
		texts[f.Path()] = s
	}
	re, err := gj5s.Reparse(texts)
	t.Step()
	if err != nil {
		t.Class("printed-text-does-not-parse") // C05's business
		return
	}
	got2, err := reflect(re)
	t.Step()
	if err != nil {
		t.Violation("reflection-of-text-fails|"+fam+"|"+vk.ErrTail(err), fmt.Sprintf("the re-parsed text cannot be reflected: %v\n%s", err, src), src, nil, err.Error())
		return
	}
	for _, k := range names {
		a, b := got[k], got2[k]
		if b == nil || !proto.Equal(a, b) {
			t.Violation("text-path-differs|"+fam, fmt.Sprintf("schema %s differs between in-memory descriptors and printed text\nmemory: %s\ntext:   %s\n%s", k, txt(a), txt(b), src), src, txt(a), txt(b))
			return
		}
	}
	t.Sample(src)
}

// diffClause: the first differing property facet (structural, no names).
func diffClause(w, g *schema_j5pb.RootSchema) string {
	props := func(r *schema_j5pb.RootSchema) []*schema_j5pb.ObjectProperty {
		if o := r.GetObject(); o != nil {
			return o.Properties
		}
		if o := r.GetOneof(); o != nil {
			return o.Properties
		}
		return nil
	}
	wp, gp := props(w), props(g)
	if len(wp) != len(gp) {
		return "property-count"
	}
	for i := range wp {
		a, b := wp[i], gp[i]
		switch {
		case a.Name != b.Name:
			return "property-name"
		case a.Required != b.Required:
			return "required"
		case a.ExplicitlyOptional != b.ExplicitlyOptional:
			return "explicitly-optional"
		case a.Description != b.Description:
			return "description"
		case fmt.Sprint(a.ProtoField) != fmt.Sprint(b.ProtoField):
			return "proto-field"
		case !proto.Equal(a.Schema, b.Schema):
			return "field-schema"
		}
	}
	if w.GetEnum() != nil {
		return "enum"
	}
	return "root"
}

func run(r *vk.Runner) {
	var cases []*gj5s.Case
	cases = append(cases, gj5s.SingleFieldCases()...)
	if !r.Quick() {
		cases = append(cases, gj5s.PairFieldCases()...)
	}
	cases = append(cases, gj5s.NestingCases()...)
	cases = append(cases, gj5s.EnumCases()...)
	cases = append(cases, gj5s.ReferenceCases()...)
	cases = append(cases, gj5s.RuleCases()...)
	cases = append(cases, gj5s.AnnotationCases()...)
	for _, c := range gj5s.EntityCases(!r.Quick()) {
		if !strings.HasPrefix(c.ID, "entity:5.") {
			cases = append(cases, c)
		}
	}
	for _, c := range cases {
		c := c
		if r.Stopped() {
			return
		}
		r.Family(c.Family)
		r.Do(c.ID, func(t *vk.T) { checkCase(t, c) })
	}
}

// sigScope: the family, refined by the rule family for the rule matrix.
// pairScope: for the field-pair family the scope is that of the field that differs,
// spelled like the single-field family (so one defect has one signature).
func pairScope(c *gj5s.Case, w, g *schema_j5pb.RootSchema) string {
	if c.Family != "field-pairs" {
		return sigScope(c)
	}
	parts := strings.Split(strings.TrimPrefix(c.ID, "pair:"), ":")
	// type names may contain ':' (integer:INT32): containers are the plain / array / map parts
	var types, conts []string
	cur := ""
	for _, p := range parts {
		if p == "plain" || p == "array" || p == "map" {
			types = append(types, cur)
			conts = append(conts, p)
			cur = ""
			continue
		}
		if cur != "" {
			cur += ":"
		}
		cur += p
	}
	wp, gp := w.GetObject().GetProperties(), g.GetObject().GetProperties()
	for i := range wp {
		if i < len(gp) && i < len(types) && !proto.Equal(wp[i], gp[i]) {
			return "single-field|type=" + types[i] + "|container=" + conts[i]
		}
	}
	return sigScope(c)
}

func sigScope(c *gj5s.Case) string {
	if c.Family == "rules" || c.Family == "single-field" {
		return c.Coord
	}
	return c.Family
}

func reversed(in []protoreflect.MessageDescriptor) []protoreflect.MessageDescriptor {
	out := make([]protoreflect.MessageDescriptor, len(in))
	for i, m := range in {
		out[len(in)-1-i] = m
	}
	return out
}

// byDepth: top-level messages first, then nested ones.
func byDepth(in []protoreflect.MessageDescriptor) []protoreflect.MessageDescriptor {
	out := append([]protoreflect.MessageDescriptor{}, in...)
	sort.SliceStable(out, func(i, j int) bool {
		return strings.Count(string(out[i].FullName()), ".") < strings.Count(string(out[j].FullName()), ".")
	})
	return out
}
