package gj5s

import (
	"fmt"
	"strings"
)

// RuleSpec is a field declaration carrying validation rules, with the
// declared rules kept in semantic form for the reference validator (C12) and
// the expected schema (C04).
type RuleSpec struct {
	ID        string
	Family    string // integer, string, key, bytes, bool, enum, array, float, decimal, date, timestamp, object, map
	Kind      TKind
	Format    string // INT32 ...
	// OutOfRange: a bound the field's format cannot hold; refusing the declaration is as good
	// as compiling it to what it says
	OutOfRange bool
	Array     bool
	Required  bool

	Min, Max         *int64
	ExclMin, ExclMax *bool
	MinLen, MaxLen   *uint64
	Pattern          *string
	KeyFormat        string // "", id62, uuid, custom
	Const            *bool
	In, NotIn        []string
	MinItems, MaxItems *uint64
	MinPairs, MaxPairs *uint64
	Optional           bool   // the field is explicitly optional ("?"): it has presence, so a present zero value is decidable
	ExplicitUnspecifiedPrefixed bool // the inline enum's first option is spelled with the prefix (VAL_UNSPECIFIED)
	StrFormat          string // string format (email ...)
	Unique           *bool
	// item rules of arrays
	Item *RuleSpec

	ExplicitUnspecified bool // the inline enum declares UNSPECIFIED explicitly
	ProtoEnum           bool // the enum is declared in a hand-written proto file with the numbers 1, 5, 10
	StrMin, StrMax *string // date / decimal bounds
	ListFilter, ListSort, ListSearchable bool

	Attrs []string // rendered body lines
}

func i64(v int64) *int64    { return &v }
func u64(v uint64) *uint64  { return &v }
func bp(v bool) *bool       { return &v }
func sp(v string) *string   { return &v }

func (rs *RuleSpec) program() *Program {
	f := file("t/v1", "a")
	var t *Type
	switch rs.Family {
	case "enum":
		if rs.ProtoEnum {
			pf := &File{Dir: "t/v1", Name: "levels", IsProto: true}
			e := &Decl{Kind: DEnum, Name: "Level", Options: []EnumOpt{{Name: "ALPHA", Number: 1}, {Name: "BETA", Number: 5}, {Name: "GAMMA", Number: 10}}}
			pf.Add(e)
			t = RefTo(e, "")
			attrs := append([]string{}, rs.Attrs...)
			fd := &Field{Name: "val", T: t, Required: rs.Required, Attrs: attrs, Rule: rs}
			f.Add(obj("Holder", fd))
			return &Program{Files: []*File{f, pf}}
		}
		e := enumD("", "ALPHA", "BETA", "GAMMA")
		e.ExplicitUnspecified = rs.ExplicitUnspecified
		if rs.ExplicitUnspecifiedPrefixed {
			// the zero option written out with the (default) prefix of the inline enum Holder.Val
			e.Options = append([]EnumOpt{{Name: "VAL_UNSPECIFIED"}}, e.Options...)
		}
		t = InlineOf(e)
	case "object":
		t = InlineOf(obj("", fld("x", T(TString))))
	case "oneof":
		t = InlineOf(oneofD("", fld("a", InlineOf(obj("", fld("x", T(TString))))), fld("b", InlineOf(obj("")))))
	default:
		t = T(rs.Kind)
		if rs.Array && rs.Kind == TObject {
			t = InlineOf(obj("", fld("x", T(TString))))
		}
		if rs.Array && rs.Kind == TOneof {
			t = InlineOf(oneofD("", fld("a", InlineOf(obj("", fld("x", T(TString)))))))
		}
	}
	if rs.Family == "key" && rs.KeyFormat == "custom" {
		t = T(TKey)
	}
	attrs := append([]string{}, rs.Attrs...)
	if rs.Array {
		t = ArrayOf(t)
	}
	if rs.Family == "map" {
		t = MapOf(T(TString))
	}
	if rs.Family == "array-ext" {
		t = ArrayOf(T(TString))
	}
	if rs.Family == "array-items" {
		t = ArrayOf(T(rs.Kind))
	}
	if rs.Family == "map-items" {
		t = MapOf(T(rs.Kind))
	}
	fd := &Field{Name: "val", T: t, Required: rs.Required, Attrs: attrs, Rule: rs}
	if rs.Optional {
		fd.Optional, fd.UseMark = true, true
	}
	f.Add(obj("Holder", fd))
	return &Program{Files: []*File{f}}
}

func optInts(vals ...int64) []*int64 {
	out := []*int64{nil}
	for _, v := range vals {
		out = append(out, i64(v))
	}
	return out
}

func optBools() []*bool { return []*bool{nil, bp(false), bp(true)} }

func optU(vals ...uint64) []*uint64 {
	out := []*uint64{nil}
	for _, v := range vals {
		out = append(out, u64(v))
	}
	return out
}

func attr(path string, v any) string {
	switch x := v.(type) {
	case *int64:
		return fmt.Sprintf("%s = %d", path, *x)
	case *uint64:
		return fmt.Sprintf("%s = %d", path, *x)
	case *bool:
		return fmt.Sprintf("%s = %v", path, *x)
	case *string:
		return fmt.Sprintf("%s = %q", path, *x)
	}
	return fmt.Sprintf("%s = %v", path, v)
}

// RuleSpecs enumerates the declarations of the C12 / C04 / C07 rule matrix.
func RuleSpecs() []*RuleSpec {
	var out []*RuleSpec
	add := func(rs *RuleSpec) {
		// scalar declarations also come as explicitly optional fields
		if !rs.Array && rs.Family != "array" && rs.Family != "map" && rs.Family != "map-items" && !rs.ProtoEnum {
			c := *rs
			c.Optional = true
			c.ID = fmt.Sprintf("%s:optional", rs.ID)
			out = append(out, &c)
		}
		for _, req := range []bool{false, true} {
			c := *rs
			c.Required = req
			c.ID = fmt.Sprintf("%s:req=%v", rs.ID, req)
			out = append(out, &c)
		}
	}
	// integers
	for _, f := range []struct {
		k TKind
		n string
	}{{TInt32, "INT32"}, {TInt64, "INT64"}, {TUint32, "UINT32"}, {TUint64, "UINT64"}} {
		for _, mn := range optInts(0, 5) {
			for _, mx := range optInts(5, 10) {
				for _, emn := range optBools() {
					for _, emx := range optBools() {
						if (emn != nil && mn == nil) || (emx != nil && mx == nil) {
							continue // an exclusive flag without its bound is not an admissible combination
						}
						rs := &RuleSpec{Family: "integer", Kind: f.k, Format: f.n, Min: mn, Max: mx, ExclMin: emn, ExclMax: emx}
						var id []string
						if mn != nil {
							rs.Attrs = append(rs.Attrs, attr("rules.minimum", mn))
							id = append(id, fmt.Sprintf("min%d", *mn))
						}
						if mx != nil {
							rs.Attrs = append(rs.Attrs, attr("rules.maximum", mx))
							id = append(id, fmt.Sprintf("max%d", *mx))
						}
						if emn != nil {
							rs.Attrs = append(rs.Attrs, attr("rules.exclusiveMinimum", emn))
							id = append(id, fmt.Sprintf("emin%v", *emn))
						}
						if emx != nil {
							rs.Attrs = append(rs.Attrs, attr("rules.exclusiveMaximum", emx))
							id = append(id, fmt.Sprintf("emax%v", *emx))
						}
						rs.ID = "integer:" + f.n + ":" + strings.Join(id, ",")
						add(rs)
					}
				}
			}
		}
	}
	// integer bounds at and beyond the ends of the 32-bit formats
	for _, f := range []struct {
		k TKind
		n string
	}{{TInt32, "INT32"}, {TUint32, "UINT32"}, {TInt64, "INT64"}, {TUint64, "UINT64"}} {
		for _, b := range []int64{2147483647, 2147483648, 4294967295, 4294967296, 4294967301} {
			b := b
			for _, which := range []string{"max", "min"} {
				rs := &RuleSpec{Family: "integer", Kind: f.k, Format: f.n}
				rs.OutOfRange = (f.k == TInt32 && b > 2147483647) || (f.k == TUint32 && b > 4294967295)
				if which == "max" {
					rs.Max = &b
					rs.Attrs = []string{attr("rules.maximum", &b)}
				} else {
					rs.Min = &b
					rs.Attrs = []string{attr("rules.minimum", &b)}
				}
				rs.ID = fmt.Sprintf("integer:%s:%s%d", f.n, which, b)
				add(rs)
			}
		}
	}
	// strings
	for _, mn := range optU(0, 1, 3) {
		for _, mx := range optU(0, 1, 3) {
			for _, pat := range []*string{nil, sp("^a+$")} {
				rs := &RuleSpec{Family: "string", Kind: TString, MinLen: mn, MaxLen: mx, Pattern: pat}
				var id []string
				if mn != nil {
					rs.Attrs = append(rs.Attrs, attr("rules.minLength", mn))
					id = append(id, fmt.Sprintf("minlen%d", *mn))
				}
				if mx != nil {
					rs.Attrs = append(rs.Attrs, attr("rules.maxLength", mx))
					id = append(id, fmt.Sprintf("maxlen%d", *mx))
				}
				if pat != nil {
					rs.Attrs = append(rs.Attrs, attr("rules.pattern", pat))
					id = append(id, "pattern")
				}
				rs.ID = "string:" + strings.Join(id, ",")
				add(rs)
			}
		}
	}
	// keys
	add(&RuleSpec{ID: "key:plain", Family: "key", Kind: TKey})
	add(&RuleSpec{ID: "key:id62", Family: "key", Kind: TKeyID62, KeyFormat: "id62"})
	add(&RuleSpec{ID: "key:uuid", Family: "key", Kind: TKeyUUID, KeyFormat: "uuid"})
	add(&RuleSpec{ID: "key:custom", Family: "key", Kind: TKey, KeyFormat: "custom", Pattern: sp("^[a-z]{3}$"), Attrs: []string{`format.custom.pattern = "^[a-z]{3}$"`}})
	// bytes
	for _, mn := range optU(1, 3) {
		for _, mx := range optU(1, 3) {
			rs := &RuleSpec{Family: "bytes", Kind: TBytes, MinLen: mn, MaxLen: mx}
			id := ""
			if mn != nil {
				rs.Attrs = append(rs.Attrs, attr("rules.minLength", mn))
				id += fmt.Sprintf("minlen%d", *mn)
			}
			if mx != nil {
				rs.Attrs = append(rs.Attrs, attr("rules.maxLength", mx))
				id += fmt.Sprintf("maxlen%d", *mx)
			}
			rs.ID = "bytes:" + id
			add(rs)
		}
	}
	// bool
	for _, c := range optBools() {
		rs := &RuleSpec{Family: "bool", Kind: TBool, Const: c, ID: "bool:none"}
		if c != nil {
			rs.Attrs = []string{attr("rules.const", c)}
			rs.ID = fmt.Sprintf("bool:const=%v", *c)
		}
		add(rs)
	}
	// enums
	add(&RuleSpec{ID: "enum:none", Family: "enum", Kind: TEnum})
	add(&RuleSpec{ID: "enum:in-one", Family: "enum", Kind: TEnum, In: []string{"ALPHA"}, Attrs: []string{`rules.in = ["ALPHA"]`}})
	add(&RuleSpec{ID: "enum:in-two", Family: "enum", Kind: TEnum, In: []string{"ALPHA", "GAMMA"}, Attrs: []string{`rules.in = ["ALPHA", "GAMMA"]`}})
	add(&RuleSpec{ID: "enum:notin-one", Family: "enum", Kind: TEnum, NotIn: []string{"BETA"}, Attrs: []string{`rules.notIn = ["BETA"]`}})
	add(&RuleSpec{ID: "enum:notin-two", Family: "enum", Kind: TEnum, NotIn: []string{"BETA", "GAMMA"}, Attrs: []string{`rules.notIn = ["BETA", "GAMMA"]`}})
	add(&RuleSpec{ID: "enum:notin-unspecified", Family: "enum", Kind: TEnum, ExplicitUnspecified: true, NotIn: []string{"UNSPECIFIED", "BETA"}, Attrs: []string{`rules.notIn = ["UNSPECIFIED", "BETA"]`}})
	for _, sub := range [][2][]string{{{"ALPHA", "BETA"}, nil}, {{"GAMMA"}, nil}, {nil, {"GAMMA"}}, {nil, {"ALPHA", "BETA"}}, {nil, nil}} {
		rs := &RuleSpec{ID: fmt.Sprintf("enum:proto-declared:in=%s:notin=%s", strings.Join(sub[0], "+"), strings.Join(sub[1], "+")), Family: "enum", Kind: TEnum, ProtoEnum: true, In: sub[0], NotIn: sub[1]}
		if len(sub[0]) > 0 {
			rs.Attrs = append(rs.Attrs, `rules.in = ["`+strings.Join(sub[0], `", "`)+`"]`)
		}
		if len(sub[1]) > 0 {
			rs.Attrs = append(rs.Attrs, `rules.notIn = ["`+strings.Join(sub[1], `", "`)+`"]`)
		}
		add(rs)
	}
	add(&RuleSpec{ID: "enum:prefixed-zero:in", Family: "enum", Kind: TEnum, ExplicitUnspecifiedPrefixed: true, In: []string{"ALPHA", "GAMMA"}, Attrs: []string{`rules.in = ["ALPHA", "GAMMA"]`}})
	add(&RuleSpec{ID: "enum:prefixed-zero:notin", Family: "enum", Kind: TEnum, ExplicitUnspecifiedPrefixed: true, NotIn: []string{"BETA"}, Attrs: []string{`rules.notIn = ["BETA"]`}})
	// strings with a well-known format next to length rules
	for _, fm := range []string{"email", "uri", "hostname"} {
		add(&RuleSpec{ID: "string:format-" + fm, Family: "string-format", Kind: TString, StrFormat: fm, Attrs: []string{fmt.Sprintf("format = %q", fm)}})
		add(&RuleSpec{ID: "string:format-" + fm + "+maxlen12", Family: "string-format", Kind: TString, StrFormat: fm, MaxLen: u64(12), Attrs: []string{fmt.Sprintf("format = %q", fm), "rules.maxLength = 12"}})
		add(&RuleSpec{ID: "string:format-" + fm + "+minlen8", Family: "string-format", Kind: TString, StrFormat: fm, MinLen: u64(8), Attrs: []string{fmt.Sprintf("format = %q", fm), "rules.minLength = 8"}})
	}
	add(&RuleSpec{ID: "enum:in-unspecified", Family: "enum", Kind: TEnum, ExplicitUnspecified: true, In: []string{"UNSPECIFIED", "ALPHA"}, Attrs: []string{`rules.in = ["UNSPECIFIED", "ALPHA"]`}})
	// maps: pair counts
	for _, mn := range optU(0, 1, 2) {
		for _, mx := range optU(2) {
			if mn == nil && mx == nil {
				continue
			}
			rs := &RuleSpec{Family: "map", Kind: TString, MinPairs: mn, MaxPairs: mx}
			var id []string
			if mn != nil {
				rs.Attrs = append(rs.Attrs, attr("rules.minPairs", mn))
				id = append(id, fmt.Sprintf("minpairs%d", *mn))
			}
			if mx != nil {
				rs.Attrs = append(rs.Attrs, attr("rules.maxPairs", mx))
				id = append(id, fmt.Sprintf("maxpairs%d", *mx))
			}
			rs.ID = "map:" + strings.Join(id, "+")
			add(rs)
		}
	}
	// maps: rules of the values
	add(&RuleSpec{ID: "map-items:string-minlen2", Family: "map-items", Kind: TString, MinLen: u64(2), Attrs: []string{"itemSchema.string.rules.minLength = 2"}})
	add(&RuleSpec{ID: "map-items:string-minlen2-pairs", Family: "map-items", Kind: TString, MinLen: u64(2), MinPairs: u64(1), Attrs: []string{"itemSchema.string.rules.minLength = 2", "rules.minPairs = 1"}})
	add(&RuleSpec{ID: "map-items:int32-min1", Family: "map-items", Kind: TInt32, Min: i64(1), Attrs: []string{"itemSchema.integer.rules.minimum = 1"}})
	add(&RuleSpec{ID: "map-items:id62", Family: "map-items", Kind: TKeyID62, KeyFormat: "id62"})
	// arrays
	items := []*RuleSpec{
		{ID: "string", Family: "string", Kind: TString},
		{ID: "string-minlen1", Family: "string", Kind: TString, MinLen: u64(1), Attrs: []string{"items.string.rules.minLength = 1"}},
		{ID: "id62", Family: "key", Kind: TKeyID62, KeyFormat: "id62"},
		{ID: "int32-min0", Family: "integer", Kind: TInt32, Format: "INT32", Min: i64(0), Attrs: []string{"items.integer.rules.minimum = 0"}},
	}
	for _, it := range items {
		for _, mn := range optU(0, 1, 2) {
			for _, mx := range optU(2) {
				for _, un := range optBools() {
					rs := &RuleSpec{Family: "array", Kind: it.Kind, Array: true, MinItems: mn, MaxItems: mx, Unique: un, Item: it}
					rs.Attrs = append(rs.Attrs, it.Attrs...)
					var id []string
					if mn != nil {
						rs.Attrs = append(rs.Attrs, attr("rules.minItems", mn))
						id = append(id, fmt.Sprintf("minitems%d", *mn))
					}
					if mx != nil {
						rs.Attrs = append(rs.Attrs, attr("rules.maxItems", mx))
						id = append(id, fmt.Sprintf("maxitems%d", *mx))
					}
					if un != nil {
						rs.Attrs = append(rs.Attrs, attr("rules.uniqueItems", un))
						id = append(id, fmt.Sprintf("unique%v", *un))
					}
					rs.ID = "array:" + it.ID + ":" + strings.Join(id, ",")
					add(rs)
				}
			}
		}
	}
	return out
}

// OtherRuleSpecs: rules the schema language can express but whose validation
// semantics C12 does not list (compile / read-back only).
func OtherRuleSpecs() []*RuleSpec {
	var out []*RuleSpec
	mk := func(id, fam string, k TKind, attrs ...string) {
		rs := &RuleSpec{ID: id, Family: fam, Kind: k, Attrs: attrs}
		for _, a := range attrs {
			switch {
			case strings.HasPrefix(a, "listRules.filtering.filterable"):
				rs.ListFilter = true
			case strings.HasPrefix(a, "listRules.sorting.sortable"):
				rs.ListSort = true
			case strings.HasPrefix(a, "listRules.searching.searchable"):
				rs.ListSearchable = true
			case strings.HasPrefix(a, "rules.minimum = \""):
				rs.StrMin = sp(strings.Trim(strings.TrimPrefix(a, "rules.minimum = "), "\""))
			case strings.HasPrefix(a, "rules.maximum = \""):
				rs.StrMax = sp(strings.Trim(strings.TrimPrefix(a, "rules.maximum = "), "\""))
			case fam == "integer" && strings.HasPrefix(a, "rules.minimum = "):
				var v int64
				fmt.Sscan(strings.TrimPrefix(a, "rules.minimum = "), &v)
				rs.Min = i64(v)
			case fam == "integer" && strings.HasPrefix(a, "rules.maximum = "):
				var v int64
				fmt.Sscan(strings.TrimPrefix(a, "rules.maximum = "), &v)
				rs.Max = i64(v)
			case a == "rules.exclusiveMinimum = true":
				rs.ExclMin = bp(true)
			case a == "rules.exclusiveMaximum = true":
				rs.ExclMax = bp(true)
			}
		}
		out = append(out, rs)
	}
	mk("float:min-max", "float", TFloat64, "rules.minimum = 1.5", "rules.maximum = 10", "rules.exclusiveMinimum = true")
	mk("float32:max", "float", TFloat32, "rules.maximum = 10")
	mk("decimal:min-max", "decimal", TDecimal, `rules.minimum = "1.5"`, `rules.maximum = "10"`, "rules.exclusiveMaximum = true")
	mk("date:min-max", "date", TDate, `rules.minimum = "2000-01-01"`, `rules.maximum = "2030-12-31"`, "rules.exclusiveMinimum = true")
	mk("timestamp:exclusive", "timestamp", TTimestamp, "rules.exclusiveMinimum = true")
	mk("object:props", "object", TObject, "rules.minProperties = 1", "rules.maxProperties = 2")
	mk("map:pairs", "map", TString, "rules.minPairs = 1", "rules.maxPairs = 2")
	mk("int64:large", "integer", TInt64, "rules.minimum = 3000000000", "rules.maximum = 9000000000000000000")
	mk("integer:multiple-of", "integer", TInt32, "rules.multipleOf = 5")
	mk("string:list-searchable", "string", TString, "listRules.searching.searchable = true")
	mk("integer:list-filter-sort", "integer", TInt64, "listRules.filtering.filterable = true", "listRules.sorting.sortable = true")
	mk("int32:list-filter-sort", "integer", TInt32, "listRules.filtering.filterable = true", "listRules.sorting.sortable = true")
	mk("uint32:list-filter-sort", "integer", TUint32, "listRules.filtering.filterable = true", "listRules.sorting.sortable = true")
	mk("uint64:list-filter-sort", "integer", TUint64, "listRules.filtering.filterable = true", "listRules.sorting.sortable = true")
	mk("float32:list", "float", TFloat32, "listRules.filtering.filterable = true", "listRules.sorting.sortable = true")
	mk("key-informal:list-filter", "key", TKey, "listRules.filtering.filterable = true")
	mk("key-uuid:list-filter", "key", TKeyUUID, "listRules.filtering.filterable = true")
	mk("bool:list-filter", "bool", TBool, "listRules.filtering.filterable = true")
	mk("key:list-filter", "key", TKeyID62, "listRules.filtering.filterable = true")
	mk("timestamp:list", "timestamp", TTimestamp, "listRules.filtering.filterable = true", "listRules.sorting.sortable = true")
	mk("date:list", "date", TDate, "listRules.filtering.filterable = true")
	mk("decimal:list", "decimal", TDecimal, "listRules.filtering.filterable = true", "listRules.sorting.sortable = true")
	mk("float:list", "float", TFloat64, "listRules.filtering.filterable = true", "listRules.sorting.sortable = true")
	mk("enum:list", "enum", TEnum, "listRules.filtering.filterable = true")
	mk("oneof:list-filter", "oneof", TOneof, "listRules.filtering.filterable = true")
	// item-count and uniqueness rules on arrays of every kind of item (read-back only)
	for _, k := range []TKind{TObject, TOneof, TDate, TDecimal, TTimestamp, TAny, TBool, TFloat64, TBytes, TKeyUUID} {
		for ui, un := range []*bool{bp(true), bp(false), nil} {
			rs := &RuleSpec{ID: fmt.Sprintf("array-of-%s:counts:%d", k, ui), Family: "array", Kind: k, Array: true, MinItems: u64(1), MaxItems: u64(3), Unique: un, Item: &RuleSpec{Family: "item", Kind: k}}
			rs.Attrs = []string{"rules.minItems = 1", "rules.maxItems = 3"}
			if un != nil {
				rs.Attrs = append(rs.Attrs, fmt.Sprintf("rules.uniqueItems = %v", *un))
			}
			out = append(out, rs)
		}
	}
	for _, f := range []string{"email", "uuid", "hostname", "ipv4", "ipv6", "uri", "date"} {
		mk("string:format-"+f, "string", TString, fmt.Sprintf("format = %q", f))
	}
	for _, f := range []string{"email", "hostname", "uri"} {
		mk("string:format-"+f+"+list", "string", TString, fmt.Sprintf("format = %q", f), "listRules.searching.searchable = true")
	}
	mk("any:only-defined-types", "any", TAny, "onlyDefined = true", `types = ["t.v1.Holder"]`)
	mk("any:open-types", "any", TAny, `types = ["t.v1.Holder", "other.v1.Thing"]`)
	mk("array-items:list-searchable", "array-items", TString, "items.string.listRules.searching.searchable = true")
	mk("array-items:list-filter", "array-items", TInt64, "items.integer.listRules.filtering.filterable = true")
	mk("map-items:string-rules", "map-items", TString, "itemSchema.string.rules.minLength = 2")
	mk("map-items:integer-rules", "map-items", TInt32, "itemSchema.integer.rules.minimum = 1")
	mk("array:single-form", "array-ext", TString, `ext.singleForm = "tag"`)
	mk("map:single-form", "map", TString, `ext.singleForm = "entry"`)
	// two groups of attributes on one field: every pair of the declarations above that are about the same
	// kind of field and do not set the same attribute (a format next to list rules, rules next to list rules)
	single := append([]*RuleSpec{}, out...)
	key := func(a string) string { k, _, _ := strings.Cut(a, " = "); return k }
	for i, a := range single {
		for _, b := range single[i+1:] {
			if a.Kind != b.Kind || a.Family != b.Family || a.Array || b.Array || a.Item != nil || b.Item != nil {
				continue
			}
			group := func(r *RuleSpec) string { g, _, _ := strings.Cut(r.Attrs[0], "."); return g }
			if len(a.Attrs) == 0 || len(b.Attrs) == 0 || group(a) == group(b) {
				continue // the same group (two sets of rules): nothing new
			}
			clash := false
			for _, x := range a.Attrs {
				for _, y := range b.Attrs {
					if key(x) == key(y) {
						clash = true
					}
				}
			}
			if clash {
				continue
			}
			mk(a.ID+"+"+b.ID, a.Family, a.Kind, append(append([]string{}, a.Attrs...), b.Attrs...)...)
		}
	}
	return out
}

// RuleCases: every rule declaration alone in a file that contains nothing else.
func RuleCases() []*Case {
	var out []*Case
	for _, rs := range append(RuleSpecs(), OtherRuleSpecs()...) {
		if rs.OutOfRange {
			continue // the compiler may refuse these; C12 decides what they mean when it does not
		}
		out = append(out, &Case{ID: "rule:" + rs.ID, Family: "rules", Coord: "rules|" + rs.Family, P: rs.program(), Rule: rs})
	}
	return out
}

// SemanticError is a bundle with one semantic error.
type SemanticError struct {
	Valid      bool // the bundle is within the documented language: it must compile
	ID         string
	Files      map[string]string
	Order      []string // first entry = the offending file
	MustReject bool
}

func SemanticErrorCases() []*SemanticError {
	one := func(id, body string, must bool) *SemanticError {
		return &SemanticError{ID: id, Files: map[string]string{"t/v1/a.j5s": "package t.v1\n\n" + body}, Order: []string{"t/v1/a.j5s"}, MustReject: must}
	}
	out := []*SemanticError{
		one("unknown-type", "object Foo {\n\tfield a nosuch\n}\n", true),
		one("unknown-ref", "object Foo {\n\tfield a object:Nope\n}\n", true),
		one("unknown-ref-in-array", "object Foo {\n\tfield a array:object:Nope\n}\n", true),
		one("unknown-ref-in-oneof", "oneof Foo {\n\toption a object:Nope\n}\n", true),
		one("enum-ref-used-as-object", "enum E {\n\toption A\n}\nobject Foo {\n\tfield a object:E\n}\n", true),
		one("object-ref-used-as-enum", "object O {\n}\nobject Foo {\n\tfield a enum:O\n}\n", true),
		one("unknown-attribute", "object Foo {\n\tfield a string {\n\t\tnosuch = true\n\t}\n}\n", true),
		one("unknown-block", "widget Foo {\n}\n", true),
		one("duplicate-field", "object Foo {\n\tfield a string\n\tfield a string\n}\n", true),
		one("duplicate-type", "object Foo {\n}\nobject Foo {\n}\n", true),
		one("duplicate-enum-option", "enum E {\n\toption A\n\toption A\n}\n", true),
		one("required-and-optional", "object Foo {\n\tfield a string {\n\t\trequired = true\n\t\toptional = true\n\t}\n}\n", true),
		one("required-and-optional-marks", "object Foo {\n\tfield a ! string {\n\t\toptional = true\n\t}\n}\n", true),
		one("unknown-import", "import nosuch.v1\n\nobject Foo {\n\tfield a object:nosuch.Bar\n}\n", true),
		one("unused-import-unknown", "import nosuch.v1\n\nobject Foo {\n}\n", true),
		one("wrong-package-line", "object Foo {\n}\n", false),
		one("bad-integer-format", "object Foo {\n\tfield a integer:INT128\n}\n", true),
		one("integer-without-format", "object Foo {\n\tfield a integer\n}\n", true),
		one("bad-key-format", "object Foo {\n\tfield a key:nosuch\n}\n", true),
		one("array-without-items", "object Foo {\n\tfield a array\n}\n", true),
		one("map-of-map", "object Foo {\n\tfield a map:map:string\n}\n", true),
		one("service-missing-path", "service Foo {\n\tmethod M {\n\t\thttpMethod = \"GET\"\n\t\trequest {\n\t\t}\n\t}\n}\n", true),
		one("service-missing-verb", "service Foo {\n\tmethod M {\n\t\thttpPath = \"/x\"\n\t\trequest {\n\t\t}\n\t}\n}\n", true),
		one("service-bad-verb", "service Foo {\n\tmethod M {\n\t\thttpMethod = \"FETCH\"\n\t\thttpPath = \"/x\"\n\t\trequest {\n\t\t}\n\t}\n}\n", true),
		one("service-missing-request", "service Foo {\n\tmethod M {\n\t\thttpMethod = \"GET\"\n\t\thttpPath = \"/x\"\n\t}\n}\n", false),
		one("path-param-without-field", "service Foo {\n\tmethod M {\n\t\thttpMethod = \"GET\"\n\t\thttpPath = \"/x/:missing\"\n\t\trequest {\n\t\t}\n\t}\n}\n", true),
		one("topic-bad-kind", "topic Foo nosuch {\n}\n", true),
		one("upsert-two-messages", "topic Foo upsert {\n\tmessage A {\n\t}\n\tmessage B {\n\t}\n}\n", true),
		one("entity-without-keys", "entity Foo {\n\tstatus ACTIVE\n}\n", false),
		one("entity-without-status", "entity Foo {\n\tkey fooId key:id62 {\n\t\tprimary = true\n\t}\n}\n", false),
		one("entity-unknown-default-status", "entity Foo {\n\tkey fooId key:id62 {\n\t\tprimary = true\n\t}\n\tstatus ACTIVE\n\tquery {\n\t\tdefaultStatusFilter = [\"NOPE\"]\n\t}\n}\n", true),
		one("enum-rule-unknown-option", "object Foo {\n\tfield a enum {\n\t\toption A\n\t\trules.in = [\"NOPE\"]\n\t}\n}\n", true),
		one("rule-wrong-literal-type", "object Foo {\n\tfield a string {\n\t\trules.minLength = \"x\"\n\t}\n}\n", true),
		one("inline-type-named-like-parent", "object Address {\n\tfield address object {\n\t\tfield x string\n\t}\n}\n", false),
		one("self-reference", "object Foo {\n\tfield child object:Foo\n\tfield kids array:object:Foo\n}\n", false),
		one("flatten-non-object", "object Foo {\n\tfield a string {\n\t\tflatten = true\n\t}\n}\n", true),
		one("oneof-option-scalar", "oneof Foo {\n\toption a string\n}\n", false),
		one("reserved-proto-name", "object Foo {\n\tfield message string\n\tfield package string\n}\n", false),
		one("digit-name", "object Foo {\n\tfield line2 string\n}\n", false),
	}
	for _, se := range out {
		switch se.ID {
		case "inline-type-named-like-parent", "self-reference", "reserved-proto-name":
			se.Valid = true
		}
	}
	two := func(id string, files map[string]string, order []string) {
		out = append(out, &SemanticError{ID: id, Files: files, Order: order, MustReject: true})
	}
	two("cross-file-cycle", map[string]string{
		"t/v1/a.j5s": "package t.v1\n\nobject A {\n\tfield b object:B\n}\n",
		"t/v1/b.j5s": "package t.v1\n\nobject B {\n\tfield a object:A\n}\n",
	}, []string{"t/v1/a.j5s", "t/v1/b.j5s"})
	two("cross-package-cycle", map[string]string{
		"t/v1/a.j5s": "package t.v1\n\nimport u.v1\n\nobject A {\n\tfield b object:u.B\n}\n",
		"u/v1/b.j5s": "package u.v1\n\nimport t.v1\n\nobject B {\n\tfield a object:t.A\n}\n",
	}, []string{"t/v1/a.j5s", "u/v1/b.j5s"})
	two("import-without-use-of-existing", map[string]string{
		"t/v1/a.j5s": "package t.v1\n\nimport u.v1\n\nobject A {\n}\n",
		"u/v1/b.j5s": "package u.v1\n\nobject B {\n}\n",
	}, []string{"t/v1/a.j5s", "u/v1/b.j5s"})
	two("reference-without-import", map[string]string{
		"t/v1/a.j5s": "package t.v1\n\nobject A {\n\tfield b object:u.v1.B\n}\n",
		"u/v1/b.j5s": "package u.v1\n\nobject B {\n}\n",
	}, []string{"t/v1/a.j5s", "u/v1/b.j5s"})
	two("proto-file-syntax-error", map[string]string{
		"t/v1/a.j5s":   "package t.v1\n\nobject A {\n}\n",
		"t/v1/b.proto": "syntax = \"proto3\";\npackage t.v1;\nmessage {\n",
	}, []string{"t/v1/a.j5s", "t/v1/b.proto"})
	return out
}

// RuleProgram renders the declaration alone in its object and file.
func RuleProgram(rs *RuleSpec) *Program { return rs.program() }

// RulePairProgram: the declaration of a as field "val" and the declaration of b as
// field "other" of the same object; b is explicitly optional unless it is required.
func RulePairProgram(a, b *RuleSpec) *Program {
	pa, pb := a.program(), b.program()
	if len(pa.Files) != 1 || len(pb.Files) != 1 {
		return nil
	}
	holder := pa.Files[0].Decls[0].(*Decl)
	other := *pb.Files[0].Decls[0].(*Decl).Fields[0]
	other.Name = "other"
	other.Rule = b
	if !b.Required && other.T.K != TArray && other.T.K != TMap {
		other.Optional, other.UseMark = true, true
	}
	holder.Fields = append(holder.Fields, &other)
	return pa
}
