package gj5s

import (
	"fmt"
)

// Append edits (C13): every place where the language allows appending a
// declaration, a field or an option at the end, and what can be appended there.

type AppendPoint struct {
	Desc  string
	Kinds []string
	Apply func(kind string, serial int)
}

func appendFieldKinds(hasObject *Decl, forOneof bool) []string {
	if forOneof {
		return []string{"option-inline-object"}
	}
	k := []string{"field-string", "field-inline-object", "field-inline-enum", "field-inline-enum-named-status", "field-inline-object-named-address"}
	if hasObject != nil {
		k = append(k, "field-array-of-ref")
	}
	return k
}

func newField(kind string, serial int, ref *Decl) *Field {
	name := fmt.Sprintf("added%s", []string{"One", "Two", "Three", "Four"}[serial%4])
	switch kind {
	case "field-string":
		return fld(name, T(TString))
	case "field-inline-object", "option-inline-object":
		return fld(name, InlineOf(obj("", fld("inner", T(TInt32)))))
	case "field-inline-enum":
		return fld(name, InlineOf(enumD("", "FIRST", "SECOND")))
	case "field-array-of-ref":
		return fld(name, ArrayOf(RefTo(ref, "")))
	case "field-inline-enum-named-status":
		// nested type named like a top-level type the parent may already refer to
		return fld("status"+[]string{"", "Two", "Three", "Four"}[serial%4], InlineOf(enumD("", "FIRST", "SECOND")))
	case "field-inline-object-named-address":
		return fld("address"+[]string{"", "Two", "Three", "Four"}[serial%4], InlineOf(obj("", fld("inner", T(TInt32)))))
	}
	panic(kind)
}

// AppendPoints lists the append points of a program in a deterministic order.
func (p *Program) AppendPoints() []*AppendPoint {
	var out []*AppendPoint
	var firstObject *Decl // first top-level object of the file being walked (reference target)
	var fieldsPoint func(desc string, fields *[]*Field, oneof bool)
	var declPoints func(desc string, d *Decl)
	fieldsPoint = func(desc string, fields *[]*Field, oneof bool) {
		target := firstObject
		out = append(out, &AppendPoint{Desc: desc, Kinds: appendFieldKinds(target, oneof), Apply: func(kind string, serial int) {
			nf := newField(kind, serial, target)
			for i := 0; i < 8; i++ {
				clash := false
				for _, x := range *fields {
					if x.Name == nf.Name {
						clash = true
					}
				}
				if !clash {
					break
				}
				nf.Name += "X"
			}
			*fields = append(*fields, nf)
		}})
		for _, f := range *fields {
			t := f.T
			for t.K == TArray || t.K == TMap {
				t = t.Elem
			}
			if t.Inline != nil {
				declPoints(desc+"."+f.Name, t.Inline)
			}
		}
	}
	declPoints = func(desc string, d *Decl) {
		switch d.Kind {
		case DObject:
			fieldsPoint(desc+"{object}", &d.Fields, false)
		case DOneof:
			fieldsPoint(desc+"{oneof}", &d.Fields, true)
		case DEnum:
			out = append(out, &AppendPoint{Desc: desc + "{enum}", Kinds: []string{"enum-option", "enum-option-named-unspecified"}, Apply: func(kind string, serial int) {
				name := fmt.Sprintf("ADDED_%d", serial)
				if kind == "enum-option-named-unspecified" {
					name = fmt.Sprintf("ADDED_%d_UNSPECIFIED", serial) // only the first option may claim the zero slot
				}
				d.Options = append(d.Options, EnumOpt{Name: name})
			}})
		}
	}
	for fi, f := range p.Files {
		f := f
		firstObject = nil
		for _, d := range f.Decls {
			if dd, ok := d.(*Decl); ok && dd.Kind == DObject {
				firstObject = dd
				break
			}
		}
		for di, d := range f.Decls {
			desc := fmt.Sprintf("file%d.decl%d", fi, di)
			switch d := d.(type) {
			case *Decl:
				declPoints(desc+":"+d.Name, d)
			case *Service:
				for _, m := range d.Methods {
					fieldsPoint(desc+":"+m.Name+".request", &m.Request, false)
					if m.HasResponse {
						fieldsPoint(desc+":"+m.Name+".response", &m.Response, false)
					}
				}
				out = append(out, &AppendPoint{Desc: desc + ":service-methods", Kinds: []string{"method"}, Apply: func(kind string, serial int) {
					d.Methods = append(d.Methods, &Method{Name: fmt.Sprintf("Added%d", serial), Verb: "GET", Path: fmt.Sprintf("/added%d", serial), HasResponse: true})
				}})
			case *Topic:
				switch d.Kind {
				case "publish", "upsert":
					for _, m := range d.Messages {
						fieldsPoint(desc+":"+m.Name, &m.Fields, false)
					}
					if d.Kind == "publish" {
						out = append(out, &AppendPoint{Desc: desc + ":topic-messages", Kinds: []string{"message"}, Apply: func(kind string, serial int) {
							d.Messages = append(d.Messages, &TopicMsg{Name: fmt.Sprintf("Added%d", serial), Fields: []*Field{fld("x", T(TString))}})
						}})
					}
				case "reqres":
					fieldsPoint(desc+":request", &d.Request, false)
					fieldsPoint(desc+":reply", &d.Reply, false)
				}
			case *Entity:
				fieldsPoint(desc+":data", &d.Data, false)
				for _, ev := range d.Events {
					fieldsPoint(desc+":event."+ev.Name, &ev.Fields, false)
				}
				out = append(out, &AppendPoint{Desc: desc + ":statuses", Kinds: []string{"status", "status-named-unspecified"}, Apply: func(kind string, serial int) {
					name := fmt.Sprintf("ADDED_%d", serial)
					if kind == "status-named-unspecified" {
						name = fmt.Sprintf("ADDED_%d_UNSPECIFIED", serial)
					}
					d.Statuses = append(d.Statuses, EnumOpt{Name: name})
				}})
				out = append(out, &AppendPoint{Desc: desc + ":events", Kinds: []string{"event"}, Apply: func(kind string, serial int) {
					d.Events = append(d.Events, &Event{Name: fmt.Sprintf("Added%d", serial), Fields: []*Field{fld("x", T(TString))}})
				}})
			}
		}
		out = append(out, &AppendPoint{Desc: fmt.Sprintf("file%d:end", fi), Kinds: []string{"top-object", "top-oneof", "top-enum", "top-service", "top-topic", "top-enum-named-like-inline", "top-object-named-like-inline"}, Apply: func(kind string, serial int) {
			n := fmt.Sprintf("Added%s", []string{"One", "Two", "Three", "Four"}[serial%4])
			taken := func(name string) bool {
				for _, g := range p.Files {
					if g.Package() != f.Package() {
						continue
					}
					for _, d := range g.Decls {
						if dd, ok := d.(*Decl); ok && dd.Name == name {
							return true
						}
					}
				}
				return false
			}
			switch kind {
			case "top-object":
				f.Add(obj(n, fld("x", T(TString))))
			case "top-oneof":
				f.Add(oneofD(n, fld("a", InlineOf(obj("", fld("x", T(TString)))))))
			case "top-enum":
				f.Add(enumD(n, "ONE", "TWO"))
			case "top-service":
				f.Add(&Service{Name: n, BasePath: "/added", Methods: []*Method{{Name: n + "Get", Verb: "GET", Path: "/x", HasResponse: true}}})
			case "top-topic":
				f.Add(&Topic{Name: n, Kind: "publish", Messages: []*TopicMsg{{Name: n + "Post", Fields: []*Field{fld("x", T(TString))}}}})
			case "top-enum-named-like-inline":
				// a top-level declaration with the name an existing inline type already has
				if taken("Status") {
					f.Add(enumD(n+"Status", "ONE", "TWO"))
				} else {
					f.Add(enumD("Status", "ONE", "TWO"))
				}
			case "top-object-named-like-inline":
				if taken("Inner") {
					f.Add(obj(n+"Inner", fld("x", T(TString))))
				} else {
					f.Add(obj("Inner", fld("x", T(TString))))
				}
			}
		}})
	}
	return out
}

// Seeds are the initial programs of the C13 search (rebuilt fresh on every call).
func Seeds() []func() *Program {
	one := func(build func(f *File)) func() *Program {
		return func() *Program {
			f := file("t/v1", "a")
			build(f)
			return &Program{Files: []*File{f}}
		}
	}
	return []func() *Program{
		one(func(f *File) { f.Add(obj("Foo", fld("name", T(TString)), fld("count", T(TInt64)))) }),
		one(func(f *File) {
			f.Add(oneofD("Choice", fld("first", InlineOf(obj("", fld("x", T(TString))))), fld("second", InlineOf(obj("")))))
		}),
		one(func(f *File) {
			e := enumD("Kind", "ONE", "TWO")
			f.Add(e)
			f.Add(obj("Holder", fld("kind", RefTo(e, ""))))
		}),
		one(func(f *File) { // enums that are empty, or hold only an explicit zero option
			e := enumD("Shipping")
			e.ExplicitUnspecified = true
			f.Add(e)
			f.Add(obj("Holder", fld("shipping", RefTo(e, ""))))
		}),
		one(func(f *File) { // a single first option that claims the zero slot by its suffix
			m := enumD("Method", "KIND_UNSPECIFIED")
			f.Add(m)
			f.Add(obj("Holder", fld("method", RefTo(m, ""))))
		}),
		one(func(f *File) {
			f.Add(obj("Foo", fld("status", InlineOf(enumD("", "ACTIVE", "INACTIVE"))), fld("inner", InlineOf(obj("", fld("deep", InlineOf(obj("", fld("z", T(TBool)))))))), fld("items", ArrayOf(InlineOf(obj("", fld("y", T(TString)))))), fld("previous", T(TString))))
		}),
		func() *Program {
			a := file("t/v1", "a")
			b := file("t/v1", "b")
			o := file("other/v1", "z")
			target := obj("Target", fld("x", T(TString)))
			o.Add(target)
			addr := obj("Address", fld("line", T(TString)))
			b.Add(addr)
			st := enumD("Status", "ON", "OFF")
			b.Add(st)
			a.Imports = []Import{{Pkg: "other.v1"}}
			a.Add(obj("Foo", fld("home", RefTo(addr, "")), fld("previous", RefTo(st, "")), fld("far", RefTo(target, "other"))))
			return &Program{Files: []*File{a, b, o}}
		},
		one(func(f *File) { // requests, responses and topic messages that refer to types of the package by name
			addr := obj("Address", fld("line", T(TString)))
			st := enumD("Status", "ON", "OFF")
			f.Add(addr)
			f.Add(st)
			f.Add(&Service{Name: "Customer", BasePath: "/t/v1", Methods: []*Method{
				{Name: "GetCustomer", Verb: "POST", Path: "/customer", Request: []*Field{fld("shippingAddress", RefTo(addr, "")), fld("wanted", RefTo(st, ""))}, HasResponse: true, Response: []*Field{fld("billingAddress", RefTo(addr, "")), fld("state", RefTo(st, "")), fld("all", ArrayOf(RefTo(addr, "")))}},
			}})
			f.Add(&Topic{Name: "Moves", Kind: "publish", Messages: []*TopicMsg{{Name: "Moved", Fields: []*Field{fld("to", RefTo(addr, "")), fld("state", RefTo(st, ""))}}}})
		}),
		func() *Program { // the same simple type name in the local and in an imported package; only the imported one is referenced, by the last declaration
			a := file("t/v1", "a")
			o := file("other/v1", "z")
			far := obj("Thing", fld("y", T(TString)))
			o.Add(far)
			a.Imports = []Import{{Pkg: "other.v1"}}
			a.Add(obj("Thing", fld("x", T(TString))))
			a.Add(obj("Early", fld("name", T(TString))))
			a.Add(obj("Late", fld("far", RefTo(far, "other")), fld("fars", ArrayOf(RefTo(far, "other")))))
			return &Program{Files: []*File{a, o}}
		},
		one(func(f *File) {
			f.Add(&Service{Name: "Foo", BasePath: "/t/v1", Methods: []*Method{
				{Name: "GetThing", Verb: "GET", Path: "/things/:thingId", Request: []*Field{fld("thingId", T(TString))}, HasResponse: true, Response: []*Field{fld("name", T(TString))}},
				{Name: "Bar", Verb: "POST", Path: "/bar", Request: []*Field{fld("v", T(TString))}, HasResponse: true},
				{Name: "NoBody", Verb: "POST", Path: "/nobody"},
			}})
		}),
		one(func(f *File) {
			f.Add(&Topic{Name: "Foo", Kind: "publish", Messages: []*TopicMsg{{Name: "Post", Fields: []*Field{fld("x", T(TString))}}, {Name: "Empty"}}})
		}),
		one(func(f *File) {
			f.Add(&Topic{Name: "Foo", Kind: "reqres", Request: []*Field{fld("x", T(TString))}})
		}),
		one(func(f *File) {
			f.Add(&Topic{Name: "Foo", Kind: "upsert", Messages: []*TopicMsg{{Name: "Put"}}})
		}),
		one(func(f *File) { f.Add(basicEntity("Foo", nil, nil)) }),
	}
}

// Build replays a history: seed index followed by (point, kind) pairs.
func Build(seed int, edits [][2]int) *Program {
	p := Seeds()[seed]()
	for i, e := range edits {
		pts := p.AppendPoints()
		pt := pts[e[0]]
		pt.Apply(pt.Kinds[e[1]], i)
	}
	return p
}

// Subsumes lists the elements of old that are missing or changed in new.
func Subsumes(old, nw *Contract) []DiffItem {
	var out []DiffItem
	add := func(clause, format string, a ...any) { out = append(out, DiffItem{clause, fmt.Sprintf(format, a...)}) }
	for _, k := range sortedKeys(old.Msgs) {
		o, n := old.Msgs[k], nw.Msgs[k]
		if n == nil {
			add("message-disappeared", "message %s is no longer emitted", k)
			continue
		}
		byNum := map[int32]CField{}
		for _, f := range n.Fields {
			byNum[f.Num] = f
		}
		for _, f := range o.Fields {
			g, ok := byNum[f.Num]
			if !ok {
				add("field-disappeared", "%s.%s (= %d) is no longer emitted", k, f.Name, f.Num)
				continue
			}
			if f != g {
				add("field-changed|"+fieldDiffClause(f, g), "%s field %d changed: was %+v, now %+v", k, f.Num, f, g)
			}
		}
	}
	for _, k := range sortedKeys(old.Enums) {
		o, n := old.Enums[k], nw.Enums[k]
		if n == nil {
			add("enum-disappeared", "enum %s is no longer emitted", k)
			continue
		}
		have := map[string]int32{}
		for _, v := range n.Values {
			have[v.Name] = v.Num
		}
		for _, v := range o.Values {
			if num, ok := have[v.Name]; !ok || num != v.Num {
				add("enum-value-changed", "%s.%s was %d, now %v (present=%v)", k, v.Name, v.Num, num, ok)
			}
		}
	}
	for _, k := range sortedKeys(old.Svcs) {
		o, n := old.Svcs[k], nw.Svcs[k]
		if n == nil {
			add("service-disappeared", "service %s is no longer emitted", k)
			continue
		}
		have := map[string]CMethod{}
		for _, m := range n.Methods {
			have[m.Name] = m
		}
		for _, m := range o.Methods {
			if g, ok := have[m.Name]; !ok || g != m {
				add("method-changed", "%s.%s was %+v, now %+v (present=%v)", k, m.Name, m, g, ok)
			}
		}
	}
	return out
}
