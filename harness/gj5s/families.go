package gj5s

import (
	"fmt"
	"strings"
)

// Case is one generated program with its structural coordinates.
type Case struct {
	ID     string
	Family string
	Coord  string // coarse coordinates for signatures (family + the dimension values that matter)
	P      *Program
	Rule   *RuleSpec // set for the rule matrix
}

func file(dir, name string) *File { return &File{Dir: dir, Name: name} }

func obj(name string, fields ...*Field) *Decl {
	return &Decl{Kind: DObject, Name: name, Fields: fields}
}

func oneofD(name string, fields ...*Field) *Decl {
	return &Decl{Kind: DOneof, Name: name, Fields: fields}
}

func enumD(name string, opts ...string) *Decl {
	d := &Decl{Kind: DEnum, Name: name}
	for _, o := range opts {
		d.Options = append(d.Options, EnumOpt{Name: o})
	}
	return d
}

func fld(name string, t *Type) *Field { return &Field{Name: name, T: t} }

// TypeVariant describes one way of typing a field.
type TypeVariant struct {
	Name  string
	Make  func(f *File) *Type // may add supporting declarations to the file
}

func typeVariants() []TypeVariant {
	var out []TypeVariant
	for _, k := range LeafKinds {
		k := k
		out = append(out, TypeVariant{k.String(), func(*File) *Type { return T(k) }})
	}
	out = append(out,
		TypeVariant{"object-ref", func(f *File) *Type {
			d := obj("Other", fld("x", T(TString)))
			f.Add(d)
			return RefTo(d, "")
		}},
		TypeVariant{"oneof-ref", func(f *File) *Type {
			d := oneofD("Choice", fld("a", InlineOf(obj("", fld("x", T(TString))))))
			f.Add(d)
			return RefTo(d, "")
		}},
		TypeVariant{"enum-ref", func(f *File) *Type {
			d := enumD("Status", "ACTIVE", "INACTIVE")
			f.Add(d)
			return RefTo(d, "")
		}},
		TypeVariant{"object-inline", func(*File) *Type { return InlineOf(obj("", fld("x", T(TString)), fld("y", T(TInt32)))) }},
		TypeVariant{"enum-inline", func(*File) *Type { return InlineOf(enumD("", "A", "B")) }},
		TypeVariant{"oneof-inline", func(*File) *Type {
			return InlineOf(oneofD("", fld("first", InlineOf(obj("", fld("q", T(TString))))), fld("second", InlineOf(obj("")))))
		}},
	)
	return out
}

type presence struct {
	name     string
	req, opt bool
	mark     bool
}

var presences = []presence{{"none", false, false, false}, {"bang", true, false, true}, {"question", false, true, true}, {"required-attr", true, false, false}, {"optional-attr", false, true, false}}

// SingleFieldCases: each field type x container x presence, alone in its file.
func SingleFieldCases() []*Case {
	var out []*Case
	for _, tv := range typeVariants() {
		for _, cont := range []string{"plain", "array", "map"} {
			for _, pr := range presences {
				if cont != "plain" && pr.opt {
					continue // optional containers are not part of the documented language
				}
				f := file("t/v1", "a")
				t := tv.Make(f)
				switch cont {
				case "array":
					t = ArrayOf(t)
				case "map":
					t = MapOf(t)
				}
				fd := &Field{Name: "fooBar", T: t, Required: pr.req, Optional: pr.opt, UseMark: pr.mark}
				f.Decls = append([]any{setFile(obj("Foo", fd), f)}, f.Decls...)
				out = append(out, &Case{
					ID:     fmt.Sprintf("single:%s:%s:%s", tv.Name, cont, pr.name),
					Family: "single-field",
					Coord:  fmt.Sprintf("single-field|type=%s|container=%s", tv.Name, cont),
					P:      &Program{Files: []*File{f}},
				})
			}
		}
	}
	return out
}

func setFile(d *Decl, f *File) *Decl { d.File = f; return d }

// rotate returns n fields with rotating kinds.
func rotate(n, shift int) []*Field {
	kinds := []TKind{TString, TInt64, TBool, TKeyID62, TTimestamp, TBytes, TDecimal}
	names := []string{"alpha", "betaTwo", "gamma", "deltaId", "epsilon", "zeta", "eta"}
	var out []*Field
	for i := 0; i < n; i++ {
		out = append(out, fld(names[i], T(kinds[(i+shift)%len(kinds)])))
	}
	return out
}

// NumberingCases: 0..6 fields in every kind of holder.
func NumberingCases() []*Case {
	var out []*Case
	holders := []string{"object", "oneof", "request", "response", "publish", "reqres-request", "reqres-reply", "upsert", "inline-object", "entity-data", "entity-event"}
	for _, h := range holders {
		for n := 0; n <= 6; n++ {
			for shift := 0; shift < 2; shift++ {
				f := file("t/v1", "a")
				fields := rotate(n, shift*3)
				switch h {
				case "object":
					f.Add(obj("Foo", fields...))
				case "oneof":
					var opts []*Field
					for _, x := range fields {
						opts = append(opts, fld(x.Name, InlineOf(obj("", fld("v", x.T)))))
					}
					f.Add(oneofD("Foo", opts...))
				case "request":
					f.Add(&Service{Name: "Foo", BasePath: "/t/v1", Methods: []*Method{{Name: "Do", Verb: "POST", Path: "/do", Request: fields, HasResponse: true}}})
				case "response":
					f.Add(&Service{Name: "Foo", BasePath: "/t/v1", Methods: []*Method{{Name: "Do", Verb: "POST", Path: "/do", Response: fields, HasResponse: true}}})
				case "publish":
					f.Add(&Topic{Name: "Foo", Kind: "publish", Messages: []*TopicMsg{{Name: "Post", Fields: fields}}})
				case "reqres-request":
					f.Add(&Topic{Name: "Foo", Kind: "reqres", Request: fields})
				case "reqres-reply":
					f.Add(&Topic{Name: "Foo", Kind: "reqres", Reply: fields})
				case "upsert":
					f.Add(&Topic{Name: "Foo", Kind: "upsert", Messages: []*TopicMsg{{Name: "Put", Fields: fields}}})
				case "inline-object":
					f.Add(obj("Foo", fld("lead", T(TString)), fld("inner", InlineOf(obj("", fields...)))))
				case "entity-data":
					f.Add(basicEntity("Foo", fields, nil))
				case "entity-event":
					f.Add(basicEntity("Foo", nil, fields))
				}
				out = append(out, &Case{ID: fmt.Sprintf("numbering:%s:%d:%d", h, n, shift), Family: "numbering", Coord: "numbering|holder=" + h, P: &Program{Files: []*File{f}}})
			}
		}
	}
	return out
}

func tr(b bool) *bool { return &b }

func basicEntity(name string, data, eventFields []*Field) *Entity {
	if data == nil {
		data = []*Field{fld("name", T(TString))}
	}
	return &Entity{
		Name:     name,
		Keys:     []*EntityKey{{Field: fld(LowerFirst(name)+"Id", T(TKeyID62)), Primary: tr(true)}},
		Data:     data,
		Statuses: []EnumOpt{{Name: "ACTIVE"}, {Name: "INACTIVE"}},
		Events:   []*Event{{Name: "Create", Fields: eventFields}, {Name: "Archive"}},
	}
}

// NestingCases: inline types to depth 3 with and without name override.
func NestingCases() []*Case {
	var out []*Case
	for depth := 1; depth <= 3; depth++ {
		for ov := 0; ov < (1 << depth); ov++ {
			for _, leaf := range []string{"string", "enum", "oneof", "array-object", "map-object"} {
				f := file("t/v1", "a")
				var inner *Type
				switch leaf {
				case "string":
					inner = T(TString)
				case "enum":
					inner = InlineOf(enumD("", "A", "B"))
				case "oneof":
					inner = InlineOf(oneofD("", fld("pick", InlineOf(obj("", fld("z", T(TBool)))))))
				case "array-object":
					inner = ArrayOf(InlineOf(obj("", fld("z", T(TBool)))))
				case "map-object":
					inner = MapOf(InlineOf(obj("", fld("z", T(TBool)))))
				}
				names := []string{"levelOne", "levelTwo", "levelThree"}
				t := inner
				leafField := fld("leafField", t)
				cur := []*Field{fld("pad", T(TInt32)), leafField}
				for d := depth - 1; d >= 0; d-- {
					it := InlineOf(obj("", cur...))
					if ov&(1<<d) != 0 {
						it.NameOverride = "Named" + UpperFirst(names[d])
					}
					cur = []*Field{fld(names[d], it)}
				}
				f.Add(obj("Foo", cur...))
				out = append(out, &Case{ID: fmt.Sprintf("nesting:%d:%d:%s", depth, ov, leaf), Family: "nesting", Coord: fmt.Sprintf("nesting|leaf=%s|override=%v", leaf, ov != 0), P: &Program{Files: []*File{f}}})
			}
		}
	}
	return out
}

// EnumCases: option counts, explicit UNSPECIFIED, prefix override, names.
func EnumCases() []*Case {
	var out []*Case
	for _, name := range []string{"Status", "FooBarKind"} {
		for n := 0; n <= 3; n++ {
			for _, explicit := range []bool{false, true} {
				for _, prefix := range []string{"", "ST_"} {
					for _, where := range []string{"top", "inline"} {
						if where == "inline" && n == 0 && !explicit {
							continue // an inline enum needs a body to be recognised as inline
						}
						f := file("t/v1", "a")
						e := enumD(name, []string{"ACTIVE", "IN_ACTIVE", "LowerCase"}[:n]...)
						e.ExplicitUnspecified = explicit
						e.Prefix = prefix
						if where == "top" {
							f.Add(e)
							f.Add(obj("Holder", fld("val", RefTo(e, ""))))
						} else {
							e.Name = ""
							it := InlineOf(e)
							f.Add(obj("Holder", fld(LowerFirst(name), it)))
						}
						out = append(out, &Case{ID: fmt.Sprintf("enum:%s:%d:%v:%s:%s", name, n, explicit, prefix, where), Family: "enums", Coord: fmt.Sprintf("enums|where=%s|explicit-unspecified=%v|prefix-override=%v", where, explicit, prefix != ""), P: &Program{Files: []*File{f}}})
					}
				}
			}
		}
	}
	// info fields: alone in the file (nothing else pulls in the annotations import), next to an object, inline
	for _, shape := range []string{"alone", "with-object", "option-info-only", "two-fields"} {
		f := file("t/v1", "a")
		e := enumD("Kind", "ONE", "TWO", "THREE")
		e.Info = []InfoField{{Name: "colour", Label: "Colour", Desc: "the colour"}}
		e.Options[0].Info = map[string]string{"colour": "red"}
		e.Options[2].Info = map[string]string{"colour": "blue"}
		switch shape {
		case "alone":
			f.Add(e)
		case "with-object":
			f.Add(e)
			f.Add(obj("Foo", fld("kind", RefTo(e, ""))))
		case "inline":
			e.Name = ""
			f.Add(obj("Foo", fld("kind", InlineOf(e))))
		case "option-info-only":
			e.Info = nil
			f.Add(e)
		case "two-fields":
			e.Info = append(e.Info, InfoField{Name: "weight", Label: "Weight"})
			e.Options[0].Info["weight"] = "1"
			e.Options[1].Info = map[string]string{"weight": "2"}
			f.Add(e)
		}
		out = append(out, &Case{ID: "enum:info:" + shape, Family: "enums", Coord: "enums|info", P: &Program{Files: []*File{f}}})
	}
	// enum names and prefixes that themselves contain UNSPECIFIED
	for _, shape := range []string{"name-contains-unspecified", "prefix-contains-unspecified", "option-contains-unspecified", "only-explicit-zero"} {
		f := file("t/v1", "a")
		var e *Decl
		switch shape {
		case "name-contains-unspecified":
			e = enumD("UnspecifiedReason", "ONE", "TWO")
		case "prefix-contains-unspecified":
			e = enumD("Reason", "ONE", "TWO")
			e.Prefix = "UNSPECIFIED_KIND_"
		case "option-contains-unspecified":
			e = enumD("Reason", "ONE", "UNSPECIFIED_TWO", "X_UNSPECIFIED_Y")
		case "only-explicit-zero":
			e = enumD("Reason")
			e.ExplicitUnspecified = true
		}
		f.Add(e)
		f.Add(obj("Foo", &Field{Name: "reason", T: RefTo(e, "")}))
		out = append(out, &Case{ID: "enum:unspecified-in-names:" + shape, Family: "enums", Coord: "enums|unspecified-in-names", P: &Program{Files: []*File{f}}})
	}
	// a zero option written by the author, with a description of its own; the next option has none
	for _, where := range []string{"top", "inline"} {
		f := file("t/v1", "a")
		e := enumD("Kind", "UNSPECIFIED", "ONE", "TWO")
		e.Options[0].Desc = "nothing was chosen"
		e.Options[2].Desc = "the second one"
		if where == "top" {
			f.Add(e)
			f.Add(obj("Foo", fld("kind", RefTo(e, ""))))
		} else {
			e.Name = ""
			f.Add(obj("Foo", fld("kind", InlineOf(e))))
		}
		out = append(out, &Case{ID: "enum:described-zero-option:" + where, Family: "enums", Coord: "enums|described-zero-option", P: &Program{Files: []*File{f}}})
	}
	return out
}

// ReferenceCases: every reference form x declaration kind.
func ReferenceCases() []*Case {
	var out []*Case
	kinds := []string{"object", "oneof", "enum"}
	mk := func(kind string) *Decl {
		switch kind {
		case "oneof":
			return oneofD("Target", fld("a", InlineOf(obj("", fld("x", T(TString))))))
		case "enum":
			return enumD("Target", "ONE", "TWO")
		}
		return obj("Target", fld("x", T(TString)))
	}
	type form struct {
		name      string
		targetDir string
		imp       *Import
		qual      string
		sameFile  bool
	}
	forms := []form{
		{"same-file", "foo/v1", nil, "", true},
		{"same-file-qualified", "foo/v1", nil, "foo.v1", true},
		{"other-file-same-package", "foo/v1", nil, "", false},
		{"import-package-short-name", "bar/v1", &Import{Pkg: "bar.v1"}, "bar", false},
		{"import-package-full-name", "bar/v1", &Import{Pkg: "bar.v1"}, "bar.v1", false},
		{"import-alias", "bar/v1", &Import{Pkg: "bar.v1", Alias: "other"}, "other", false},
		{"import-three-segment-short", "org/bar/v1", &Import{Pkg: "org.bar.v1"}, "bar", false},
		{"import-three-segment-full", "org/bar/v1", &Import{Pkg: "org.bar.v1"}, "org.bar.v1", false},
		{"import-three-segment-alias", "org/bar/v1", &Import{Pkg: "org.bar.v1", Alias: "ob"}, "ob", false},
		{"import-sibling-prefix", "foo/bar/v1", &Import{Pkg: "foo.bar.v1"}, "bar", false},
	}
	for _, kind := range kinds {
		for _, fm := range forms {
			for _, cont := range []string{"plain", "array", "map"} {
				for _, extra := range []int{0, 1, 2} {
					target := mk(kind)
					user := file("foo/v1", "a")
					p := &Program{}
					if fm.sameFile {
						user.Add(target)
					} else {
						tf := file(fm.targetDir, "z")
						tf.Add(target)
						p.Files = append(p.Files, tf)
					}
					if fm.imp != nil {
						user.Imports = append(user.Imports, *fm.imp)
					}
					t := RefTo(target, fm.qual)
					switch cont {
					case "array":
						t = ArrayOf(t)
					case "map":
						t = MapOf(t)
					}
					fields := []*Field{fld("ref", t)}
					if extra > 0 {
						// a second, unrelated package in the bundle whose name shares a segment,
						// imported with an alias (1) or without (2: default name "baz")
						of := file("bar/baz/v1", "y")
						of.Add(mk(kind))
						p.Files = append(p.Files, of)
						if extra == 1 {
							user.Imports = append(user.Imports, Import{Pkg: "bar.baz.v1", Alias: "bz"})
							fields = append(fields, fld("second", RefTo(of.Decls[0].(*Decl), "bz")))
						} else {
							user.Imports = append(user.Imports, Import{Pkg: "bar.baz.v1"})
							fields = append(fields, fld("second", RefTo(of.Decls[0].(*Decl), "baz")))
						}
					}
					user.Decls = append([]any{setFile(obj("User", fields...), user)}, user.Decls...)
					p.Files = append([]*File{user}, p.Files...)
					out = append(out, &Case{ID: fmt.Sprintf("ref:%s:%s:%s:%d", kind, fm.name, cont, extra), Family: "references", Coord: fmt.Sprintf("references|kind=%s|form=%s", kind, fm.name), P: p})
				}
			}
		}
	}
	// types of the built-in j5 packages, imported by full name, short name and alias
	for _, bt := range []struct{ pkg, dir, file, name string }{{"j5.list.v1", "j5/list/v1", "page", "PageRequest"}, {"j5.state.v1", "j5/state/v1", "metadata", "StateMetadata"}, {"j5.list.v1", "j5/list/v1", "query", "QueryRequest"}} {
		short := strings.Split(bt.pkg, ".")[1]
		for _, fm := range []struct {
			name string
			imp  Import
			qual string
		}{{"builtin-full-name", Import{Pkg: bt.pkg}, bt.pkg}, {"builtin-short-name", Import{Pkg: bt.pkg}, short}, {"builtin-alias", Import{Pkg: bt.pkg, Alias: "bi"}, "bi"}} {
			for _, cont := range []string{"plain", "array"} {
				target := &Decl{Kind: DObject, Name: bt.name, File: &File{Dir: bt.dir, Name: bt.file, IsProto: true}}
				user := file("foo/v1", "a")
				user.Imports = []Import{fm.imp}
				t := RefTo(target, fm.qual)
				if cont == "array" {
					t = ArrayOf(t)
				}
				user.Add(obj("User", fld("ref", t)))
				out = append(out, &Case{ID: fmt.Sprintf("ref:builtin:%s:%s:%s", bt.name, fm.name, cont), Family: "references", Coord: "references|kind=object|form=" + fm.name, P: &Program{Files: []*File{user}}})
			}
		}
	}
	// two imported packages whose default short name is the same (acme.common.v1 / beta.common.v1):
	// one is used under its default name, the other under an alias, in both import orders
	for _, kind := range kinds {
		for _, aliasFirst := range []bool{false, true} {
			for _, which := range []string{"default-name-only", "alias-only", "both"} {
				af := file("acme/common/v1", "z")
				at := mk(kind)
				af.Add(at)
				bf := file("beta/common/v1", "y")
				bt := mk(kind)
				bf.Add(bt)
				user := file("foo/v1", "a")
				plain, aliased := Import{Pkg: "acme.common.v1"}, Import{Pkg: "beta.common.v1", Alias: "bc"}
				if aliasFirst {
					user.Imports = []Import{aliased, plain}
				} else {
					user.Imports = []Import{plain, aliased}
				}
				var fields []*Field
				if which != "alias-only" {
					fields = append(fields, fld("ref", RefTo(at, "common")))
				}
				if which != "default-name-only" {
					fields = append(fields, fld("second", RefTo(bt, "bc")))
				}
				user.Add(obj("User", fields...))
				out = append(out, &Case{ID: fmt.Sprintf("ref:%s:same-short-name:%v:%s", kind, aliasFirst, which), Family: "references", Coord: fmt.Sprintf("references|kind=%s|form=same-short-name", kind), P: &Program{Files: []*File{user, af, bf}}})
			}
		}
	}
	return out
}

// ServiceCases: verbs x path patterns x response x basePath forms.
func ServiceCases() []*Case {
	var out []*Case
	type pat struct {
		name   string
		path   string
		params []string
	}
	pats := []pat{
		{"plain", "/things", nil},
		{"one-param", "/things/:thingId", []string{"thingId"}},
		{"two-params", "/things/:thingId/parts/:partName", []string{"thingId", "partName"}},
		{"prefix-params", "/:item/:itemVersion", []string{"item", "itemVersion"}},
		{"param-first", "/:thingId/sub", []string{"thingId"}},
		{"root", "", nil},
	}
	for _, verb := range []string{"GET", "POST", "PUT", "DELETE", "PATCH"} {
		for _, p := range pats {
			for _, resp := range []string{"response", "empty-response", "no-response"} {
				for _, base := range []string{"/t/v1", "/t/v1/:tenantId", ""} {
					f := file("t/v1", "a")
					var req []*Field
					if base == "/t/v1/:tenantId" {
						req = append(req, fld("tenantId", T(TKeyUUID)))
					}
					for _, prm := range p.params {
						req = append(req, fld(prm, T(TString)))
					}
					req = append(req, fld("extra", T(TInt32)))
					m := &Method{Name: "DoThing", Verb: verb, Path: p.path, Request: req}
					switch resp {
					case "response":
						m.HasResponse = true
						m.Response = []*Field{fld("result", T(TString))}
					case "empty-response":
						m.HasResponse = true
					}
					second := &Method{Name: "Second", Verb: "GET", Path: "/second", HasResponse: true}
					if base == "/t/v1/:tenantId" {
						second.Request = []*Field{fld("tenantId", T(TKeyUUID))}
					}
					f.Add(&Service{Name: "Thing", BasePath: base, Methods: []*Method{m, second}})
					out = append(out, &Case{ID: fmt.Sprintf("service:%s:%s:%s:%s", verb, p.name, resp, base), Family: "services", Coord: fmt.Sprintf("services|verb=%s|path=%s|response=%s", verb, p.name, resp), P: &Program{Files: []*File{f}}})
				}
			}
		}
	}
	// source files whose base names sort before, between and after "service/" and "topic/"
	for _, n := range []string{"aa", "sz", "user", "widget", "zz"} {
		for _, what := range []string{"service", "topic", "entity", "service-and-topic"} {
			f := file("t/v1", n)
			thing := obj("Thing", fld("x", T(TString)))
			f.Add(thing)
			if what == "service" || what == "service-and-topic" {
				f.Add(&Service{Name: "Thing", BasePath: "/t/v1", Methods: []*Method{{Name: "GetThing", Verb: "GET", Path: "/thing", HasResponse: true, Response: []*Field{fld("thing", RefTo(thing, ""))}}}})
			}
			if what == "topic" || what == "service-and-topic" {
				f.Add(&Topic{Name: "Thing", Kind: "publish", Messages: []*TopicMsg{{Name: "PostThing", Fields: []*Field{fld("thing", RefTo(thing, ""))}}}})
			}
			if what == "entity" {
				f.Add(basicEntity("Foo", []*Field{fld("thing", RefTo(thing, ""))}, []*Field{fld("thing", RefTo(thing, ""))}))
			}
			// alone in its package, and next to a file that sorts first and pulls the main file in as a dependency
			out = append(out, &Case{ID: fmt.Sprintf("service:file-name:%s:%s:alone", n, what), Family: "services", Coord: "services|file-name-order", P: &Program{Files: []*File{f}}})
			f2 := file("t/v1", n)
			f2.Decls = f.Decls
			g := file("t/v1", "m")
			g.Add(obj("User", fld("thing", RefTo(thing, ""))))
			out = append(out, &Case{ID: fmt.Sprintf("service:file-name:%s:%s:with-user", n, what), Family: "services", Coord: "services|file-name-order", P: &Program{Files: []*File{f2, g}}})
		}
	}
	// request properties whose name is a prefix of a path parameter's name
	for _, verb := range []string{"GET", "PUT"} {
		f := file("t/v1", "a")
		f.Add(&Service{Name: "Thing", BasePath: "/t/v1", Methods: []*Method{{Name: "DoThing", Verb: verb, Path: "/things/:thingId/:partNameLong",
			Request: []*Field{fld("thing", T(TString)), fld("thingId", T(TString)), fld("partName", T(TString)), fld("partNameLong", T(TString)), fld("part", T(TInt32))}, HasResponse: true}}})
		out = append(out, &Case{ID: "service:prefix-named-properties:" + verb, Family: "services", Coord: "services|prefix-named-properties", P: &Program{Files: []*File{f}}})
	}
	// top-level declarations named like the messages a method or a topic generates into its sub-package
	for _, shape := range []string{"object-one-file", "object-three-files", "enum-response", "topic-message"} {
		a := file("t/v1", "a")
		files := []*File{a}
		svc := &Service{Name: "Thing", BasePath: "/t/v1", Methods: []*Method{{Name: "Ping", Verb: "POST", Path: "/ping", Request: []*Field{fld("v", T(TString))}, HasResponse: true, Response: []*Field{fld("w", T(TString))}}}}
		switch shape {
		case "object-one-file":
			req := obj("PingRequest", fld("x", T(TString)))
			a.Add(req)
			a.Add(svc)
			a.Add(obj("User", fld("r", RefTo(req, ""))))
		case "object-three-files":
			req := obj("PingRequest", fld("x", T(TString)))
			a.Add(req)
			b := file("t/v1", "b")
			b.Add(svc)
			c := file("t/v1", "c")
			c.Add(obj("User", fld("r", RefTo(req, "")), fld("rs", ArrayOf(RefTo(req, "")))))
			files = append(files, b, c)
		case "enum-response":
			e := enumD("PingResponse", "ONE", "TWO")
			a.Add(e)
			a.Add(obj("User", fld("e", RefTo(e, ""))))
			a.Add(svc)
		case "topic-message":
			m := obj("PostMessage", fld("x", T(TString)))
			a.Add(m)
			a.Add(obj("User", fld("m", RefTo(m, ""))))
			a.Add(&Topic{Name: "Note", Kind: "publish", Messages: []*TopicMsg{{Name: "Post", Fields: []*Field{fld("y", T(TString))}}}})
		}
		out = append(out, &Case{ID: "service:named-like-generated-message:" + shape, Family: "services", Coord: "services|named-like-generated-message", P: &Program{Files: files}})
	}
	// package names with a component that is also the first component of an imported package
	for _, dir := range []string{"acme/google/v1", "acme/j5/v1", "buf/shop/v1"} {
		f := file(dir, "a")
		f.Add(&Service{Name: "Thing", BasePath: "/x/v1", Methods: []*Method{
			{Name: "Raw", Verb: "GET", Path: "/raw"},
			{Name: "Ping", Verb: "POST", Path: "/ping", Request: []*Field{fld("v", T(TString)), fld("when", T(TTimestamp)), fld("id", T(TKeyID62))}, HasResponse: true, Response: []*Field{fld("w", T(TDate))}},
		}})
		out = append(out, &Case{ID: "service:package-component-like-import:" + dir, Family: "services", Coord: "services|package-component-like-import", P: &Program{Files: []*File{f}}})
	}
	// a method named like the response / request message another method generates
	for _, other := range []string{"PingResponse", "PingRequest"} {
		f := file("t/v1", "a")
		f.Add(&Service{Name: "Thing", BasePath: "/t/v1", Methods: []*Method{
			{Name: "Ping", Verb: "POST", Path: "/ping", Request: []*Field{fld("v", T(TString))}, HasResponse: true, Response: []*Field{fld("w", T(TString))}},
			{Name: other, Verb: "POST", Path: "/pong", Request: []*Field{fld("v", T(TString))}, HasResponse: true, Response: []*Field{fld("w", T(TString))}},
		}})
		out = append(out, &Case{ID: "service:method-named-like-generated-message:" + other, Family: "services", Coord: "services|method-named-like-generated-message", P: &Program{Files: []*File{f}}})
	}
	// requests made of path parameters only, and empty requests, for every verb
	for _, verb := range []string{"GET", "POST", "PUT", "DELETE", "PATCH"} {
		for _, shape := range []string{"only-path-params", "no-fields"} {
			f := file("t/v1", "a")
			m := &Method{Name: "DoThing", Verb: verb, Path: "/things/:thingId/:partName", Request: []*Field{fld("thingId", T(TString)), fld("partName", T(TString))}, HasResponse: true}
			if shape == "no-fields" {
				m.Path, m.Request = "/things", nil
			}
			f.Add(&Service{Name: "Thing", BasePath: "/t/v1", Methods: []*Method{m}})
			out = append(out, &Case{ID: fmt.Sprintf("service:%s:%s", verb, shape), Family: "services", Coord: "services|verb=" + verb + "|request=" + shape, P: &Program{Files: []*File{f}}})
		}
	}
	// source files whose names contain dots, two of them with the same first segment, each with a service / topic
	for _, names := range [][2]string{{"orders.query", "orders.command"}, {"a.b.c", "a.b"}, {"x", "x.extra"}} {
		for _, what := range []string{"services", "topics", "service-and-topic"} {
			var files []*File
			for i, n := range names {
				f := file("t/v1", n)
				tag := []string{"First", "Second"}[i]
				if what == "services" || (what == "service-and-topic" && i == 0) {
					f.Add(&Service{Name: tag, BasePath: "/t/v1/" + strings.ToLower(tag), Methods: []*Method{{Name: "Do" + tag, Verb: "GET", Path: "/x", HasResponse: true}}})
				} else {
					f.Add(&Topic{Name: tag, Kind: "publish", Messages: []*TopicMsg{{Name: "Post" + tag, Fields: []*Field{fld("x", T(TString))}}}})
				}
				f.Add(obj(tag+"Thing", fld("x", T(TString))))
				files = append(files, f)
			}
			out = append(out, &Case{ID: fmt.Sprintf("service:dotted-files:%s+%s:%s", names[0], names[1], what), Family: "services", Coord: "services|dotted-file-names", P: &Program{Files: files}})
		}
	}
	// method paths that repeat, extend or resemble the base path: base + path is plain concatenation
	for _, bp := range [][2]string{{"/stock", "/stock"}, {"/stock", "/stock/:itemId"}, {"/stock", "/stock-levels/:itemId"}, {"/stock", "/stocks"}, {"/t/v1", "/t/v1"}, {"/t/v1", "/t/v1/again"}, {"/t", "/t"}, {"/a/:tenantId", "/a/:tenantId/x"}} {
		f := file("t/v1", "a")
		var req []*Field
		seen := map[string]bool{}
		for _, seg := range strings.Split(bp[0]+bp[1], "/") {
			if strings.HasPrefix(seg, ":") && !seen[seg] {
				seen[seg] = true
				req = append(req, fld(seg[1:], T(TString)))
			}
		}
		f.Add(&Service{Name: "Thing", BasePath: bp[0], Methods: []*Method{{Name: "DoThing", Verb: "GET", Path: bp[1], Request: req, HasResponse: true}, {Name: "Second", Verb: "POST", Path: bp[1] + "/second", Request: req, HasResponse: true}}})
		out = append(out, &Case{ID: fmt.Sprintf("service:overlap:%s:%s", bp[0], bp[1]), Family: "services", Coord: "services|path-overlaps-base", P: &Program{Files: []*File{f}}})
	}
	return out
}

// TopicCases
func TopicCases() []*Case {
	var out []*Case
	for _, name := range []string{"Foo", "FooBar"} {
		for n := 0; n <= 2; n++ {
			fields := rotate(n, 1)
			f := file("t/v1", "a")
			f.Add(&Topic{Name: name, Kind: "publish", Messages: []*TopicMsg{{Name: "PostThing", Fields: fields}, {Name: "Second", Fields: rotate(1, 0)}}})
			out = append(out, &Case{ID: fmt.Sprintf("topic:publish:%s:%d", name, n), Family: "topics", Coord: "topics|kind=publish", P: &Program{Files: []*File{f}}})
			f = file("t/v1", "a")
			f.Add(&Topic{Name: name, Kind: "reqres", Request: fields, Reply: rotate(n, 2)})
			out = append(out, &Case{ID: fmt.Sprintf("topic:reqres:%s:%d", name, n), Family: "topics", Coord: "topics|kind=reqres", P: &Program{Files: []*File{f}}})
			f = file("t/v1", "a")
			f.Add(&Topic{Name: name, Kind: "upsert", Messages: []*TopicMsg{{Name: "UpsertThing", Fields: fields}}})
			out = append(out, &Case{ID: fmt.Sprintf("topic:upsert:%s:%d", name, n), Family: "topics", Coord: "topics|kind=upsert", P: &Program{Files: []*File{f}}})
		}
	}
	// a message named like the message another one generates (Ping -> PingMessage), in both orders
	for oi, order := range [][]string{{"Ping", "PingMessage"}, {"PingMessage", "Ping"}} {
		f := file("t/v1", "a")
		f.Add(&Topic{Name: "Note", Kind: "publish", Messages: []*TopicMsg{{Name: order[0], Fields: []*Field{fld("x", T(TString))}}, {Name: order[1], Fields: []*Field{fld("y", T(TString))}}}})
		out = append(out, &Case{ID: fmt.Sprintf("topic:publish:message-named-like-generated:%d", oi), Family: "topics", Coord: "topics|kind=publish", P: &Program{Files: []*File{f}}})
	}
	// everything in one file, several files in one package
	f := file("t/v1", "a")
	f.Add(obj("Foo", fld("x", T(TString))))
	f.Add(&Service{Name: "Foo", BasePath: "/t/v1", Methods: []*Method{{Name: "Get", Verb: "GET", Path: "/x", HasResponse: true, Response: []*Field{fld("foo", RefTo(f.Decls[0].(*Decl), ""))}}}})
	f.Add(&Topic{Name: "Foo", Kind: "publish", Messages: []*TopicMsg{{Name: "Post", Fields: []*Field{fld("foo", RefTo(f.Decls[0].(*Decl), ""))}}}})
	g := file("t/v1", "b")
	g.Add(obj("Bar", fld("foo", RefTo(f.Decls[0].(*Decl), ""))))
	g.Add(&Service{Name: "Bar", BasePath: "/t/v1/bar", Methods: []*Method{{Name: "List", Verb: "GET", Path: "", HasResponse: true}}})
	out = append(out, &Case{ID: "mixed:two-files", Family: "mixed", Coord: "mixed", P: &Program{Files: []*File{f, g}}})
	return out
}

// PairFieldCases (thorough): every ordered pair of field types x containers in one object,
// the second field with each presence form.
func PairFieldCases() []*Case {
	var out []*Case
	tvs := typeVariants()
	conts := []string{"plain", "array", "map"}
	wrap := func(t *Type, cont string) *Type {
		switch cont {
		case "array":
			return ArrayOf(t)
		case "map":
			return MapOf(t)
		}
		return t
	}
	for _, a := range tvs {
		for _, b := range tvs {
			for _, ca := range conts {
				for _, cb := range conts {
					f := file("t/v1", "a")
					ta := a.Make(f)
					nBefore := len(f.Decls)
					tb := b.Make(f)
					// the same supporting declaration twice would be a duplicate name: share it
					if a.Name == b.Name && len(f.Decls) > nBefore {
						f.Decls = f.Decls[:nBefore]
						tb = ta
					}
					pr := presences[(len(out))%len(presences)]
					fb := &Field{Name: "second", T: wrap(tb, cb), Required: pr.req, Optional: pr.opt && cb == "plain", UseMark: pr.mark}
					fa := &Field{Name: "fooBar", T: wrap(ta, ca)}
					f.Decls = append([]any{setFile(obj("Foo", fa, fb), f)}, f.Decls...)
					out = append(out, &Case{
						ID:     fmt.Sprintf("pair:%s:%s:%s:%s", a.Name, ca, b.Name, cb),
						Family: "field-pairs",
						Coord:  fmt.Sprintf("field-pairs|types=%s+%s", a.Name, b.Name),
						P:      &Program{Files: []*File{f}},
					})
				}
			}
		}
	}
	return out
}

// MixedLanguageCases: hand-written proto3 files and j5s files referring to one
// another (same package and across packages), in every container.
func MixedLanguageCases() []*Case {
	var out []*Case
	for _, dir := range []string{"j5s-uses-proto", "proto-uses-j5s", "j5s-uses-proto-other-package", "both-ways"} {
		for _, kind := range []string{"object", "enum"} {
			for _, cont := range []string{"plain", "array", "map"} {
				wrap := func(t *Type) *Type {
					switch cont {
					case "array":
						return ArrayOf(t)
					case "map":
						return MapOf(t)
					}
					return t
				}
				mk := func(name string) *Decl {
					if kind == "enum" {
						return enumD(name, "ONE", "TWO")
					}
					return obj(name, fld("name", T(TString)), fld("count", T(TInt32)))
				}
				var files []*File
				switch dir {
				case "j5s-uses-proto":
					pf := &File{Dir: "t/v1", Name: "plain", IsProto: true}
					target := mk("Plain")
					pf.Add(target)
					jf := file("t/v1", "a")
					jf.Add(obj("User", fld("ref", wrap(RefTo(target, ""))), fld("tail", T(TString))))
					files = []*File{jf, pf}
				case "j5s-uses-proto-other-package":
					pf := &File{Dir: "other/v1", Name: "plain", IsProto: true}
					target := mk("Plain")
					pf.Add(target)
					jf := file("t/v1", "a")
					jf.Imports = []Import{{Pkg: "other.v1"}}
					jf.Add(obj("User", fld("ref", wrap(RefTo(target, "other"))), fld("tail", T(TString))))
					files = []*File{jf, pf}
				case "proto-uses-j5s":
					jf := file("t/v1", "a")
					target := mk("Target")
					jf.Add(target)
					pf := &File{Dir: "t/v1", Name: "plain", IsProto: true, ProtoImports: []string{"t/v1/a.j5s.proto"}}
					pf.Add(obj("Back", fld("ref", wrap(RefTo(target, ""))), fld("tail", T(TString))))
					files = []*File{jf, pf}
				case "both-ways":
					// proto type used by j5s (file a), whose object is used by another proto file
					pf := &File{Dir: "t/v1", Name: "plain", IsProto: true}
					target := mk("Plain")
					pf.Add(target)
					jf := file("t/v1", "a")
					user := obj("User", fld("ref", wrap(RefTo(target, ""))))
					jf.Add(user)
					qf := &File{Dir: "t/v1", Name: "zback", IsProto: true, ProtoImports: []string{"t/v1/a.j5s.proto"}}
					qf.Add(obj("Back", fld("user", RefTo(user, ""))))
					files = []*File{jf, pf, qf}
				}
				out = append(out, &Case{ID: fmt.Sprintf("mixed-language:%s:%s:%s", dir, kind, cont), Family: "mixed-language", Coord: "mixed-language|" + dir + "|" + kind, P: &Program{Files: files}})
			}
		}
	}
	return out
}

// DependencyCases: bundle files referring to types of external dependencies
// (descriptors, not sources) whose directory names sit next to the bundle's own
// package (foo.v1 / foo.v1beta1 / foo.v10 / foo.v1.sub-like names).
func DependencyCases() []*Case {
	var out []*Case
	for _, dep := range []string{"other/v1", "t/v1beta1", "t/v10", "t/v1test", "tt/v1", "t/common/v1"} {
		for _, kind := range []string{"object", "enum"} {
			df := &File{Dir: dep, Name: "types", IsProto: true, IsDep: true}
			var target *Decl
			if kind == "enum" {
				target = enumD("Shared", "ONE", "TWO")
			} else {
				target = obj("Shared", fld("name", T(TString)))
			}
			df.Add(target)
			jf := file("t/v1", "a")
			depPkg := strings.ReplaceAll(dep, "/", ".")
			jf.Imports = []Import{{Pkg: depPkg, Alias: "dep"}}
			jf.Add(obj("User", fld("ref", RefTo(target, "dep")), fld("refs", ArrayOf(RefTo(target, "dep")))))
			out = append(out, &Case{ID: fmt.Sprintf("dependency:%s:%s", dep, kind), Family: "dependencies", Coord: "dependencies|" + dep, P: &Program{Files: []*File{jf, df}}})
		}
	}
	// sibling directories with the same type names, through the tool's own dependency set
	for _, c := range SiblingDependencyBundles() {
		c.ID, c.Family, c.Coord = strings.Replace(c.ID, "bundle:", "dependency:", 1), "dependencies", "dependencies|siblings"
		out = append(out, c)
	}
	return out
}

// OddNameCases: field, type and method names with acronyms, digits and single-letter
// segments in every container. The reference compiler does not model how such names are
// snake-cased, so these are used by the checks that need no naming model (C07 acceptance,
// C05 print / re-parse, C15, C16).
func OddNameCases() []*Case {
	var out []*Case
	names := []string{"md5sums", "byUserID", "tagsByID", "fooURLs", "x", "aB", "v2", "userIDs", "httpURL2", "a1b2"}
	for _, n := range names {
		for _, cont := range []string{"plain", "array", "map"} {
			for _, tk := range []string{"string", "object-inline", "enum-inline"} {
				f := file("t/v1", "a")
				var t *Type
				switch tk {
				case "string":
					t = T(TString)
				case "object-inline":
					t = InlineOf(obj("", fld("z", T(TBool))))
				case "enum-inline":
					t = InlineOf(enumD("", "A", "B"))
				}
				switch cont {
				case "array":
					t = ArrayOf(t)
				case "map":
					t = MapOf(t)
				}
				f.Add(obj("Holder", fld(n, t), fld("tail", T(TString))))
				f.Add(&Service{Name: "Odd", BasePath: "/t/v1", Methods: []*Method{{Name: "PutIt", Verb: "POST", Path: "/it", Request: []*Field{fld(n, t)}, HasResponse: true, Response: []*Field{fld("holder", RefTo(f.Decls[0].(*Decl), ""))}}}})
				out = append(out, &Case{ID: fmt.Sprintf("odd-field-name:%s:%s:%s", n, cont, tk), Family: "odd-names", Coord: "odd-names|" + cont + "|" + tk, P: &Program{Files: []*File{f}}})
			}
		}
	}
	return out
}

// AllContractCases: the families whose expected contract the reference compiler knows.
func AllContractCases(thorough bool) []*Case {
	var out []*Case
	out = append(out, SingleFieldCases()...)
	if thorough {
		out = append(out, PairFieldCases()...)
	}
	out = append(out, NumberingCases()...)
	out = append(out, NestingCases()...)
	out = append(out, EnumCases()...)
	out = append(out, ReferenceCases()...)
	out = append(out, MixedLanguageCases()...)
	out = append(out, DependencyCases()...)
	out = append(out, ServiceCases()...)
	out = append(out, TopicCases()...)
	out = append(out, EntityCases(thorough)...)
	return out
}

// AnnotationCases: descriptions, flatten, key annotations.
func AnnotationCases() []*Case {
	var out []*Case
	add := func(id string, f *File) {
		out = append(out, &Case{ID: "annot:" + id, Family: "annotations", Coord: "annotations|" + id, P: &Program{Files: []*File{f}}})
	}
	{
		f := file("t/v1", "a")
		d := obj("Foo", &Field{Name: "name", T: T(TString), Desc: "the name"}, &Field{Name: "other", T: T(TInt32), Desc: "body description", Required: true})
		d.Desc = []string{"Foo is a thing", "second line"}
		f.Add(d)
		e := enumD("Kind", "ONE", "TWO")
		e.Desc = []string{"Kind doc"}
		e.Options[0].Desc = "first"
		f.Add(e)
		add("descriptions", f)
	}
	{ // only some siblings carry a description (= a source location in the compiled file)
		f := file("t/v1", "a")
		e1 := enumD("First", "ONE", "TWO", "THREE")
		e1.ExplicitUnspecified = false
		e1.Options[1].Desc = "only the middle one"
		f.Add(e1)
		e2 := enumD("Second", "ONE", "TWO")
		e2.Desc = []string{"Second has a description, First and Third have none"}
		e2.Options[0].Desc = "first described, second not"
		f.Add(e2)
		f.Add(enumD("Third", "ONE"))
		o1 := obj("Plain", fld("a", T(TString)), &Field{Name: "b", T: T(TString), Desc: "described"}, fld("c", T(TString)))
		f.Add(o1)
		o2 := obj("Described", &Field{Name: "a", T: T(TString), Desc: "described"}, fld("b", InlineOf(enumD("", "X", "Y"))), fld("c", InlineOf(obj("", fld("z", T(TBool))))))
		o2.Desc = []string{"Described has one"}
		o2.Fields[1].T.Inline.Options[1].Desc = "second only"
		f.Add(o2)
		f.Add(obj("Last", fld("a", T(TString))))
		add("partial-descriptions", f)
	}
	{ // a oneof without options: compiled to a message marked only by its option
		f := file("t/v1", "a")
		empty := oneofD("Empty")
		f.Add(empty)
		f.Add(obj("User", fld("pick", RefTo(empty, "")), fld("picks", ArrayOf(RefTo(empty, ""))), fld("inlineEmpty", InlineOf(oneofD("")))))
		add("empty-oneof", f)
	}
	// inline enums with descriptions, preceded by different numbers of nested messages / enums
	for _, shape := range []string{"after-map", "after-inline-object", "two-inline-enums", "after-two-objects-and-enum", "enum-first"} {
		f := file("t/v1", "a")
		mkEnum := func(tag string) *Type {
			e := enumD("", "ONE", "TWO")
			e.Desc = []string{"the " + tag + " enum"}
			e.Options[0].Desc = tag + " one"
			e.Options[1].Desc = tag + " two"
			return InlineOf(e)
		}
		mkObj := func(tag string) *Type {
			o := obj("", &Field{Name: "x", T: T(TString), Desc: tag + " x"})
			o.Desc = []string{"the " + tag + " object"}
			return InlineOf(o)
		}
		var fields []*Field
		switch shape {
		case "after-map":
			fields = []*Field{fld("tags", MapOf(T(TString))), fld("kind", mkEnum("kind"))}
		case "after-inline-object":
			fields = []*Field{fld("inner", mkObj("inner")), fld("kind", mkEnum("kind"))}
		case "two-inline-enums":
			fields = []*Field{fld("kind", mkEnum("kind")), fld("mode", mkEnum("mode"))}
		case "after-two-objects-and-enum":
			fields = []*Field{fld("a", mkObj("a")), fld("kind", mkEnum("kind")), fld("b", mkObj("b")), fld("mode", mkEnum("mode")), fld("byName", MapOf(mkObj("entry")))}
		case "enum-first":
			fields = []*Field{fld("kind", mkEnum("kind")), fld("inner", mkObj("inner")), fld("tags", MapOf(T(TString)))}
		}
		f.Add(obj("Holder", fields...))
		add("inline-descriptions:"+shape, f)
	}
	{
		f := file("t/v1", "a")
		inner := obj("Inner", fld("x", T(TString)), fld("y", T(TInt32)))
		f.Add(inner)
		f.Add(obj("Foo", &Field{Name: "inner", T: RefTo(inner, ""), Flatten: true}, fld("z", T(TBool))))
		add("flatten-ref", f)
	}
	{
		f := file("t/v1", "a")
		f.Add(obj("Foo", &Field{Name: "inner", T: InlineOf(obj("", fld("x", T(TString)))), Flatten: true}))
		add("flatten-inline", f)
	}
	{
		f := file("t/v1", "a")
		f.Add(obj("Foo", &Field{Name: "parentId", T: T(TKeyID62), Attrs: []string{`foreign = "other.v1.Parent"`}}))
		add("foreign-key", f)
	}
	{
		// a nested type and a top-level type with the same short name
		f := file("t/v1", "a")
		f.Add(obj("Inner", fld("top", T(TBool))))
		f.Add(obj("Foo", fld("inner", InlineOf(obj("", fld("nested", T(TString))))), fld("status", InlineOf(enumD("", "A", "B")))))
		f.Add(enumD("Status", "X", "Y", "Z"))
		f.Add(obj("Bar", fld("inner", InlineOf(obj("", fld("other", T(TInt32)))))))
		add("nested-and-top-level-same-name", f)
	}
	return out
}

// ShapeCases: shapes that stress type-name printing and comments.
func ShapeCases() []*Case {
	var out []*Case
	add := func(id string, files ...*File) {
		out = append(out, &Case{ID: "shape:" + id, Family: "shapes", Coord: "shapes|" + id, P: &Program{Files: files}})
	}
	{
		f := file("t/v1", "a")
		d := obj("Node", fld("name", T(TString)))
		d.Fields = append(d.Fields, fld("child", RefTo(d, "")), fld("kids", ArrayOf(RefTo(d, ""))), fld("byName", MapOf(RefTo(d, ""))))
		f.Add(d)
		add("self-reference", f)
	}
	{
		f := file("t/v1", "a")
		a := obj("Alpha")
		b := obj("Beta", fld("a", RefTo(a, "")))
		a.Fields = []*Field{fld("b", RefTo(b, ""))}
		f.Add(a)
		f.Add(b)
		add("mutual-reference", f)
	}
	{
		// a nested type shadows a top-level type of the same name
		f := file("t/v1", "a")
		top := obj("Inner", fld("top", T(TBool)))
		f.Add(top)
		f.Add(obj("Foo", fld("inner", InlineOf(obj("", fld("nested", T(TString))))), fld("outer", RefTo(top, ""))))
		add("nested-shadows-top-level", f)
	}
	{
		// nested enum shadows a top-level enum referenced by a sibling field
		f := file("t/v1", "a")
		st := enumD("Status", "ON", "OFF")
		f.Add(st)
		f.Add(obj("Foo", fld("previous", RefTo(st, "")), fld("status", InlineOf(enumD("", "A", "B")))))
		add("nested-enum-shadows-top-level", f)
	}
	{
		// package a.b.v1 refers to b.v1
		b := file("b/v1", "z")
		target := obj("Target", fld("x", T(TString)))
		b.Add(target)
		a := file("a/b/v1", "a")
		a.Imports = []Import{{Pkg: "b.v1"}}
		a.Add(obj("User", fld("t", RefTo(target, "b.v1"))))
		add("package-suffix-overlap", a, b)
	}
	{
		f := file("t/v1", "a")
		other := obj("Other", fld("x", T(TString)))
		f.Add(other)
		f.Add(obj("Foo",
			&Field{Name: "optObj", T: RefTo(other, ""), Optional: true, UseMark: true},
			&Field{Name: "optInline", T: InlineOf(obj("", fld("y", T(TInt32)))), Optional: true},
			&Field{Name: "optDate", T: T(TDate), Optional: true, UseMark: true},
			&Field{Name: "optTs", T: T(TTimestamp), Optional: true},
			&Field{Name: "optAny", T: T(TAny), Optional: true},
			&Field{Name: "optStr", T: T(TString), Optional: true, UseMark: true},
		))
		add("optional-message-fields", f)
	}
	{
		f := file("t/v1", "a")
		d := obj("Foo", &Field{Name: "name", T: T(TString), Desc: "trailing \"quotes\" and \\ backslash"})
		d.Desc = []string{"First paragraph", "continues", "", "Second paragraph", "", "Third with unicode é 日本 😀 and */ /* // markers"}
		f.Add(d)
		e := enumD("Kind", "ONE", "TWO")
		e.Desc = []string{"Enum doc", "", "para two"}
		e.Options[1].Desc = "second option"
		f.Add(e)
		f.Add(&Service{Name: "Foo", BasePath: "/t/v1", Methods: []*Method{{Name: "Get", Verb: "GET", Path: "/x", HasResponse: true}}})
		add("descriptions", f)
	}
	{
		f := file("t/v1", "a")
		f.Add(obj("Foo", &Field{Name: "val", T: T(TString), Attrs: []string{`rules.pattern = "^a\\d+ \"q\" é😀$"`}}))
		add("pattern-with-escapes", f)
	}
	return out
}

// PipelineCases: shapes that the downstream tools (client API, OpenAPI) must digest.
func PipelineCases() []*Case {
	var out []*Case
	add := func(id string, f *File) {
		out = append(out, &Case{ID: "pipeline:" + id, Family: "pipeline", Coord: "pipeline|" + id, P: &Program{Files: []*File{f}}})
	}
	// every field type in request body, query, response and path position
	for _, tv := range typeVariants() {
		for _, pos := range []string{"body", "query", "response", "path"} {
			for _, cont := range []string{"plain", "array", "map"} {
				if pos == "path" && (cont != "plain" || tv.Name == "any" || strings.Contains(tv.Name, "object") || strings.Contains(tv.Name, "oneof") || tv.Name == "bytes") {
					continue
				}
				f := file("t/v1", "a")
				t := tv.Make(f)
				switch cont {
				case "array":
					t = ArrayOf(t)
				case "map":
					t = MapOf(t)
				}
				m := &Method{Name: "DoThing", Verb: "POST", Path: "/things", HasResponse: true}
				if pos == "path" {
					// the same path parameter on a method with a body and on one without
					for vi, verb := range []string{"POST", "DELETE"} {
						g := file("t/v1", "a")
						tt := tv.Make(g)
						mm := &Method{Name: "DoThing", Verb: verb, Path: "/things/:val", HasResponse: true, Request: []*Field{fld("val", tt), fld("other", T(TString))}}
						g.Decls = append([]any{&Service{Name: "Thing", BasePath: "/t/v1", Methods: []*Method{mm}}}, g.Decls...)
						out = append(out, &Case{ID: fmt.Sprintf("pipeline:position:%s:path-with-body:%d", tv.Name, vi), Family: "pipeline", Coord: "pipeline|position=path-with-body|type=" + tv.Name, P: &Program{Files: []*File{g}}})
					}
				}
				switch pos {
				case "body":
					m.Request = []*Field{fld("val", t)}
				case "query":
					m.Verb = "GET"
					m.Request = []*Field{fld("val", t)}
				case "response":
					m.Response = []*Field{fld("val", t)}
				case "path":
					m.Verb = "GET"
					m.Path = "/things/:val"
					m.Request = []*Field{fld("val", t)}
				}
				f.Decls = append([]any{&Service{Name: "Thing", BasePath: "/t/v1", Methods: []*Method{m}}}, f.Decls...)
				out = append(out, &Case{ID: fmt.Sprintf("pipeline:position:%s:%s:%s", tv.Name, pos, cont), Family: "pipeline", Coord: "pipeline|position=" + pos + "|type=" + tv.Name, P: &Program{Files: []*File{f}}})
			}
		}
	}
	// list methods over filterable / sortable / searchable fields
	{
		f := file("t/v1", "a")
		item := obj("Item",
			&Field{Name: "itemId", T: T(TKeyID62), Attrs: []string{"listRules.filtering.filterable = true"}},
			&Field{Name: "name", T: T(TString), Attrs: []string{"listRules.searching.searchable = true"}},
			&Field{Name: "count", T: T(TInt64), Attrs: []string{"listRules.filtering.filterable = true", "listRules.sorting.sortable = true"}},
			&Field{Name: "createdAt", T: T(TTimestamp), Attrs: []string{"listRules.filtering.filterable = true", "listRules.sorting.sortable = true"}},
			&Field{Name: "kind", T: InlineOf(enumD("", "A", "B")), Attrs: []string{"listRules.filtering.filterable = true"}},
			&Field{Name: "flag", T: T(TBool), Attrs: []string{"listRules.filtering.filterable = true"}},
			&Field{Name: "inner", T: InlineOf(obj("", &Field{Name: "deepName", T: T(TString), Attrs: []string{"listRules.searching.searchable = true"}}))},
		)
		f.Add(item)
		f.Add(&Service{Name: "Item", BasePath: "/t/v1", Methods: []*Method{{Name: "ListItems", Verb: "GET", Path: "/items", HasResponse: true,
			Request:  []*Field{{Name: "page", T: &Type{K: TObject, Ref: &Ref{Qualifier: "j5.list.v1", To: &Decl{Kind: DObject, Name: "PageRequest", File: &File{Dir: "j5/list/v1", Name: "page"}}}}}, {Name: "query", T: &Type{K: TObject, Ref: &Ref{Qualifier: "j5.list.v1", To: &Decl{Kind: DObject, Name: "QueryRequest", File: &File{Dir: "j5/list/v1", Name: "query"}}}}}},
			Response: []*Field{fld("items", ArrayOf(RefTo(item, ""))), {Name: "page", T: &Type{K: TObject, Ref: &Ref{Qualifier: "j5.list.v1", To: &Decl{Kind: DObject, Name: "PageResponse", File: &File{Dir: "j5/list/v1", Name: "page"}}}}}}}}})
		f.Imports = []Import{{Pkg: "j5.list.v1"}}
		add("list-method", f)
	}
	// a row object with several fields of one object type that carries list rules: whatever a list
	// request offers below one of them it must offer below the others
	{
		f := file("t/v1", "a")
		stamp := obj("Stamp",
			&Field{Name: "at", T: T(TTimestamp), Attrs: []string{"listRules.filtering.filterable = true", "listRules.sorting.sortable = true"}},
			&Field{Name: "by", T: T(TString), Attrs: []string{"listRules.searching.searchable = true"}},
			&Field{Name: "actorId", T: T(TKeyID62), Attrs: []string{"listRules.filtering.filterable = true"}},
			&Field{Name: "count", T: T(TInt64), Attrs: []string{"listRules.filtering.filterable = true", "listRules.sorting.sortable = true"}},
		)
		f.Add(stamp)
		item := obj("Item", fld("created", RefTo(stamp, "")), fld("updated", RefTo(stamp, "")), &Field{Name: "name", T: T(TString), Attrs: []string{"listRules.searching.searchable = true"}}, fld("archived", RefTo(stamp, "")))
		f.Add(item)
		listRef := func(name, file string) *Type {
			return &Type{K: TObject, Ref: &Ref{Qualifier: "j5.list.v1", To: &Decl{Kind: DObject, Name: name, File: &File{Dir: "j5/list/v1", Name: file}}}}
		}
		f.Add(&Service{Name: "Item", BasePath: "/t/v1", Methods: []*Method{{Name: "ListItems", Verb: "GET", Path: "/items", HasResponse: true,
			Request:  []*Field{{Name: "page", T: listRef("PageRequest", "page")}, {Name: "query", T: listRef("QueryRequest", "query")}},
			Response: []*Field{fld("items", ArrayOf(RefTo(item, ""))), {Name: "page", T: listRef("PageResponse", "page")}}}}})
		f.Imports = []Import{{Pkg: "j5.list.v1"}}
		add("list-twins:created,updated,archived", f)
	}
	// list-shaped requests on methods whose response is not a list: no response at all, an empty one,
	// one without an array, one whose array holds scalars
	for _, shape := range []string{"no-response", "empty-response", "no-array", "scalar-array", "two-arrays"} {
		f := file("t/v1", "a")
		item := obj("Item", &Field{Name: "name", T: T(TString), Attrs: []string{"listRules.searching.searchable = true"}})
		f.Add(item)
		listRef := func(name, file string) *Type {
			return &Type{K: TObject, Ref: &Ref{Qualifier: "j5.list.v1", To: &Decl{Kind: DObject, Name: name, File: &File{Dir: "j5/list/v1", Name: file}}}}
		}
		m := &Method{Name: "ListItems", Verb: "GET", Path: "/items", Request: []*Field{{Name: "page", T: listRef("PageRequest", "page")}, {Name: "query", T: listRef("QueryRequest", "query")}}}
		switch shape {
		case "empty-response":
			m.HasResponse = true
		case "no-array":
			m.HasResponse = true
			m.Response = []*Field{fld("item", RefTo(item, "")), {Name: "page", T: listRef("PageResponse", "page")}}
		case "scalar-array":
			m.HasResponse = true
			m.Response = []*Field{fld("names", ArrayOf(T(TString))), {Name: "page", T: listRef("PageResponse", "page")}}
		case "two-arrays":
			m.HasResponse = true
			m.Response = []*Field{fld("items", ArrayOf(RefTo(item, ""))), fld("more", ArrayOf(RefTo(item, ""))), {Name: "page", T: listRef("PageResponse", "page")}}
		}
		f.Add(&Service{Name: "Item", BasePath: "/t/v1", Methods: []*Method{m}})
		f.Imports = []Import{{Pkg: "j5.list.v1"}}
		add("list-request:"+shape, f)
	}
	// names that case conversions alter: acronyms, digits
	for _, name := range []string{"PostFooID", "FetchURL", "Sync2fa", "GetV2Thing", "HTTPPing", "FooB"} {
		{
			f := file("t/v1", "a")
			f.Add(&Topic{Name: "Odd", Kind: "publish", Messages: []*TopicMsg{{Name: name, Fields: []*Field{fld("x", T(TString))}}, {Name: "Plain", Fields: []*Field{fld("y", T(TString))}}}})
			add("odd-name:publish-message:"+name, f)
		}
		{
			f := file("t/v1", "a")
			f.Add(&Topic{Name: name, Kind: "reqres", Request: []*Field{fld("x", T(TString))}, Reply: []*Field{fld("y", T(TString))}})
			add("odd-name:reqres-topic:"+name, f)
		}
		{
			f := file("t/v1", "a")
			f.Add(&Topic{Name: name, Kind: "publish", Messages: []*TopicMsg{{Name: "Only", Fields: []*Field{fld("x", T(TString))}}}})
			add("odd-name:publish-topic:"+name, f)
		}
		{
			f := file("t/v1", "a")
			f.Add(&Service{Name: "Odd", BasePath: "/t/v1", Methods: []*Method{{Name: name, Verb: "POST", Path: "/odd", Request: []*Field{fld("x", T(TString))}, HasResponse: true, Response: []*Field{fld("y", T(TString))}}}})
			add("odd-name:method:"+name, f)
		}
		{
			f := file("t/v1", "a")
			f.Add(&Service{Name: name, BasePath: "/t/v1", Methods: []*Method{{Name: "DoIt", Verb: "GET", Path: "/odd", HasResponse: true}}})
			add("odd-name:service:"+name, f)
		}
		for _, verb := range []string{"GET", "POST"} { // the name as a path parameter
			f := file("t/v1", "a")
			pn := LowerFirst(name)
			f.Add(&Service{Name: "Odd", BasePath: "/t/v1/:" + pn, Methods: []*Method{{Name: "DoIt", Verb: verb, Path: "/odd/:thingID", Request: []*Field{fld(pn, T(TString)), fld("thingID", T(TKeyID62)), fld("extra", T(TString))}, HasResponse: true}}})
			add("odd-name:path-parameter:"+name+":"+verb, f)
		}
	}
	// one list rule on one field, at the top level, nested, below a oneof arm and in a recursive item
	{
		type lr struct {
			tv    string
			rules []string
		}
		listRefs := func() (page, query, pageResp *Type) {
			mk := func(n, file string) *Type {
				return &Type{K: TObject, Ref: &Ref{Qualifier: "j5.list.v1", To: &Decl{Kind: DObject, Name: n, File: &File{Dir: "j5/list/v1", Name: file}}}}
			}
			return mk("PageRequest", "page"), mk("QueryRequest", "query"), mk("PageResponse", "page")
		}
		for _, l := range []lr{
			{"string", []string{"searching.searchable"}},
			{"bool", []string{"filtering.filterable"}},
			{"integer:INT32", []string{"filtering.filterable", "sorting.sortable"}},
			{"integer:UINT64", []string{"filtering.filterable", "sorting.sortable"}},
			{"float:FLOAT64", []string{"filtering.filterable", "sorting.sortable"}},
			{"timestamp", []string{"filtering.filterable", "sorting.sortable"}},
			{"key", []string{"filtering.filterable"}},
			{"key:uuid", []string{"filtering.filterable"}},
			{"enum-inline", []string{"filtering.filterable"}},
			{"enum-ref", []string{"filtering.filterable"}},
			{"oneof-ref", []string{"filtering.filterable"}},
			{"date", []string{"filtering.filterable"}},
			{"decimal", []string{"filtering.filterable", "sorting.sortable"}},
		} {
			for _, rule := range l.rules {
				for _, pos := range []string{"top", "nested", "oneof-arm", "recursive"} {
					var tv TypeVariant
					for _, x := range typeVariants() {
						if x.Name == l.tv {
							tv = x
						}
					}
					f := file("t/v1", "a")
					f.Imports = []Import{{Pkg: "j5.list.v1"}}
					val := &Field{Name: "val", T: tv.Make(f), Attrs: []string{"listRules." + rule + " = true"}}
					item := obj("Item", fld("itemId", T(TKeyID62)))
					path := "val"
					switch pos {
					case "top":
						item.Fields = append(item.Fields, val)
					case "nested":
						item.Fields = append(item.Fields, fld("inner", InlineOf(obj("", fld("other", T(TString)), val))))
						path = "inner.val"
					case "oneof-arm":
						item.Fields = append(item.Fields, fld("pick", InlineOf(oneofD("", fld("arm", InlineOf(obj("", val)))))))
						path = "pick.arm.val"
					case "recursive":
						item.Fields = append(item.Fields, val, fld("child", RefTo(item, "")))
					}
					f.Add(item)
					page, query, pageResp := listRefs()
					f.Add(&Service{Name: "Item", BasePath: "/t/v1", Methods: []*Method{{Name: "ListItems", Verb: "GET", Path: "/items", HasResponse: true,
						Request:  []*Field{{Name: "page", T: page}, {Name: "query", T: query}},
						Response: []*Field{fld("items", ArrayOf(RefTo(item, ""))), {Name: "page", T: pageResp}}}}})
					kind := rule[strings.Index(rule, ".")+1:]
					out = append(out, &Case{ID: fmt.Sprintf("pipeline:list:%s:%s:%s", l.tv, kind, pos), Family: "pipeline",
						Coord: "pipeline|list|" + kind + "|" + path + "|type=" + l.tv, P: &Program{Files: []*File{f}}})
				}
			}
		}
	}
	// recursion in every position
	mkRec := func() (*File, *Decl) {
		f := file("t/v1", "a")
		node := obj("Node", fld("name", T(TString)))
		node.Fields = append(node.Fields, fld("child", RefTo(node, "")), fld("kids", ArrayOf(RefTo(node, ""))))
		f.Add(node)
		return f, node
	}
	{
		f, node := mkRec()
		f.Add(&Service{Name: "Tree", BasePath: "/t/v1", Methods: []*Method{{Name: "PutTree", Verb: "POST", Path: "/tree", Request: []*Field{fld("root", RefTo(node, ""))}, HasResponse: true, Response: []*Field{fld("root", RefTo(node, ""))}}}})
		add("recursive-request-response", f)
	}
	{
		f, node := mkRec()
		f.Imports = []Import{{Pkg: "j5.list.v1"}}
		f.Add(&Service{Name: "Tree", BasePath: "/t/v1", Methods: []*Method{{Name: "ListTrees", Verb: "GET", Path: "/trees", HasResponse: true,
			Request:  []*Field{{Name: "page", T: &Type{K: TObject, Ref: &Ref{Qualifier: "j5.list.v1", To: &Decl{Kind: DObject, Name: "PageRequest", File: &File{Dir: "j5/list/v1", Name: "page"}}}}}, {Name: "query", T: &Type{K: TObject, Ref: &Ref{Qualifier: "j5.list.v1", To: &Decl{Kind: DObject, Name: "QueryRequest", File: &File{Dir: "j5/list/v1", Name: "query"}}}}}},
			Response: []*Field{fld("trees", ArrayOf(RefTo(node, ""))), {Name: "page", T: &Type{K: TObject, Ref: &Ref{Qualifier: "j5.list.v1", To: &Decl{Kind: DObject, Name: "PageResponse", File: &File{Dir: "j5/list/v1", Name: "page"}}}}}}}}})
		add("recursive-list-items", f)
	}
	for _, shape := range []string{"oneof-self", "oneof-mutual", "oneof-via-array"} { // cycles that never pass through an object
		f := file("t/v1", "a")
		f.Imports = []Import{{Pkg: "j5.list.v1"}}
		filter := oneofD("Filter", fld("leaf", InlineOf(obj("", fld("x", T(TString))))))
		switch shape {
		case "oneof-self":
			filter.Fields = append(filter.Fields, fld("not", RefTo(filter, "")))
			f.Add(filter)
		case "oneof-mutual":
			other := oneofD("Other", fld("back", RefTo(filter, "")))
			filter.Fields = append(filter.Fields, fld("other", RefTo(other, "")))
			f.Add(filter)
			f.Add(other)
		case "oneof-via-array":
			wrap := oneofD("Wrap", fld("deeper", RefTo(filter, "")))
			filter.Fields = append(filter.Fields, fld("any", RefTo(wrap, "")))
			f.Add(filter)
			f.Add(wrap)
		}
		item := obj("Item", fld("itemId", T(TKeyID62)), fld("filter", RefTo(filter, "")))
		f.Add(item)
		mkRef := func(n, file string) *Type {
			return &Type{K: TObject, Ref: &Ref{Qualifier: "j5.list.v1", To: &Decl{Kind: DObject, Name: n, File: &File{Dir: "j5/list/v1", Name: file}}}}
		}
		f.Add(&Service{Name: "Item", BasePath: "/t/v1", Methods: []*Method{{Name: "ListItems", Verb: "GET", Path: "/items", HasResponse: true,
			Request:  []*Field{{Name: "page", T: mkRef("PageRequest", "page")}, {Name: "query", T: mkRef("QueryRequest", "query")}},
			Response: []*Field{fld("items", ArrayOf(RefTo(item, ""))), {Name: "page", T: mkRef("PageResponse", "page")}}},
			{Name: "PutFilter", Verb: "POST", Path: "/filter", Request: []*Field{fld("filter", RefTo(filter, ""))}, HasResponse: true, Response: []*Field{fld("filter", RefTo(filter, ""))}}}})
		add("recursive-"+shape+"-list-items", f)
	}
	{
		f := file("t/v1", "a")
		a := obj("Alpha", fld("name", T(TString)))
		b := obj("Beta", fld("a", RefTo(a, "")))
		a.Fields = append(a.Fields, fld("b", RefTo(b, "")))
		f.Add(a)
		f.Add(b)
		f.Add(&Service{Name: "Ab", BasePath: "/t/v1", Methods: []*Method{{Name: "GetAb", Verb: "GET", Path: "/ab", HasResponse: true, Response: []*Field{fld("a", RefTo(a, ""))}}}})
		add("mutually-recursive-response", f)
	}
	{
		f, node := mkRec()
		e := basicEntity("Tree", []*Field{fld("root", RefTo(node, "")), fld("label", T(TString))}, []*Field{fld("root", RefTo(node, ""))})
		f.Add(e)
		add("recursive-entity-data", f)
	}
	{
		f := file("t/v1", "a")
		w := oneofD("Choice", fld("a", InlineOf(obj("", fld("x", T(TString))))))
		w.Fields = append(w.Fields, fld("again", InlineOf(obj("", fld("next", RefTo(w, ""))))))
		f.Add(w)
		f.Add(&Service{Name: "Pick", BasePath: "/t/v1", Methods: []*Method{{Name: "Pick", Verb: "POST", Path: "/pick", Request: []*Field{fld("choice", RefTo(w, ""))}, HasResponse: true}}})
		add("recursive-oneof-request", f)
	}
	// an object flattened directly into a request body / response / entity data, whose own fields are
	// the only references to further schemas
	for _, pos := range []string{"request", "response", "query", "entity-data"} {
		f := file("t/v1", "a")
		leaf := obj("Leaf", fld("x", T(TString)), fld("kind", InlineOf(enumD("", "ONE", "TWO"))))
		pick := oneofD("Pick", fld("leaf", RefTo(leaf, "")))
		wrapper := obj("Wrapper", fld("leaf", RefTo(leaf, "")), fld("picks", ArrayOf(RefTo(pick, ""))), fld("note", T(TString)))
		f.Add(leaf)
		f.Add(pick)
		f.Add(wrapper)
		flat := &Field{Name: "wrapper", T: RefTo(wrapper, ""), Flatten: true}
		switch pos {
		case "request":
			f.Add(&Service{Name: "Flat", BasePath: "/t/v1", Methods: []*Method{{Name: "PutFlat", Verb: "POST", Path: "/flat", Request: []*Field{flat, fld("other", T(TString))}, HasResponse: true}}})
		case "query":
			f.Add(&Service{Name: "Flat", BasePath: "/t/v1", Methods: []*Method{{Name: "GetFlat", Verb: "GET", Path: "/flat", Request: []*Field{flat}, HasResponse: true}}})
		case "response":
			f.Add(&Service{Name: "Flat", BasePath: "/t/v1", Methods: []*Method{{Name: "GetFlat", Verb: "GET", Path: "/flat", HasResponse: true, Response: []*Field{flat, fld("other", T(TString))}}}})
		case "entity-data":
			f.Add(basicEntity("Thing", []*Field{flat, fld("label", T(TString))}, []*Field{fld("label", T(TString))}))
		}
		add("flattened-directly:"+pos, f)
	}
	return out
}

// SiblingDependencyBundles: external dependencies whose directories are textual prefixes of one
// another (d/v1, d/v1beta1, d/v10, d/v1/sub) and declare types with the same simple names; the
// local file refers to the types of d.v1 only. Offered through the tool's own dependency set.
func SiblingDependencyBundles() []*Case {
	var out []*Case
	for _, kind := range []string{"object", "enum"} {
		mk := func(dir, name string, field string) (*File, *Decl) {
			df := &File{Dir: dir, Name: name, IsProto: true, IsDep: true}
			var d *Decl
			if kind == "enum" {
				d = enumD("Shared", "ONE", strings.ToUpper(field))
			} else {
				d = obj("Shared", fld(field, T(TString)))
			}
			df.Add(d)
			return df, d
		}
		main, target := mk("d/v1", "types", "name")
		more := &File{Dir: "d/v1", Name: "more", IsProto: true, IsDep: true}
		moreT := obj("More", fld("x", T(TString)))
		more.Add(moreT)
		beta, _ := mk("d/v1beta1", "types", "beta")
		ten, _ := mk("d/v10", "types", "ten")
		sub, _ := mk("d/v1/sub", "types", "sub")
		jf := file("t/v1", "a")
		jf.Imports = []Import{{Pkg: "d.v1", Alias: "dep"}}
		jf.Add(obj("User", fld("ref", RefTo(target, "dep")), fld("refs", ArrayOf(RefTo(target, "dep"))), fld("more", RefTo(moreT, "dep"))))
		out = append(out, &Case{ID: "bundle:sibling-dependencies:" + kind, Family: "bundles", Coord: "bundles|sibling-dependencies", P: &Program{Files: []*File{jf, main, more, beta, ten, sub}, ImageDeps: true}})
	}
	return out
}

// StaleGeneratedBundles: packages whose directory also holds generated .j5s.proto files left over
// from an earlier run (outdated content, and one whose source is gone); the file source lists them
// like every other file. They are not sources.
func StaleGeneratedBundles() []*Case {
	a := file("s/v1", "a")
	foo := obj("Foo", fld("name", T(TString)), fld("extra", T(TInt32)))
	a.Add(foo)
	b := file("s/v1", "b")
	b.Add(obj("Bar", fld("foo", RefTo(foo, "")), fld("foos", ArrayOf(RefTo(foo, "")))))
	stale := &File{Dir: "s/v1", Name: "a.j5s", IsProto: true, ListedOnly: true}
	stale.Add(obj("Foo", fld("name", T(TString))))
	stale.Add(obj("Old", fld("x", T(TString))))
	orphan := &File{Dir: "s/v1", Name: "zz.j5s", IsProto: true, ListedOnly: true}
	orphan.Add(obj("Gone", fld("y", T(TString))))
	return []*Case{{ID: "bundle:stale-generated-files", Family: "bundles", Coord: "bundles|stale-generated-files", P: &Program{Files: []*File{a, b, stale, orphan}}}}
}

// DeterminismBundles: multi-file, multi-package programs with many sibling
// imports, options and annotations (the shapes where an iteration or listing
// order could leak into the output).
func DeterminismBundles() []*Case {
	var out []*Case
	add := func(id string, files ...*File) {
		out = append(out, &Case{ID: "bundle:" + id, Family: "bundles", Coord: "bundles|" + id, P: &Program{Files: files}})
	}
	{ // two packages, three files, references in every direction the language allows
		x := file("a/v1", "x")
		money := obj("Money", fld("amount", T(TDecimal)), fld("currency", T(TString)))
		kind := enumD("Kind", "ONE", "TWO", "THREE")
		x.Add(money)
		x.Add(kind)
		y := file("a/v1", "y")
		line := obj("Line", fld("price", RefTo(money, "")), fld("kind", RefTo(kind, "")), fld("tags", MapOf(T(TString))))
		y.Add(line)
		pick := oneofD("Pick", fld("money", RefTo(money, "")), fld("line", RefTo(line, "")))
		y.Add(pick)
		w := file("a/v1", "w")
		basket := obj("Basket", fld("lines", ArrayOf(RefTo(line, ""))), fld("pick", RefTo(pick, "")))
		w.Add(basket)
		z := file("b/v1", "z")
		z.Imports = []Import{{Pkg: "a.v1", Alias: "shop"}}
		z.Add(obj("Order", fld("basket", RefTo(basket, "shop")), fld("total", RefTo(money, "shop")), fld("kinds", ArrayOf(RefTo(kind, "shop")))))
		z.Add(&Service{Name: "Order", BasePath: "/b/v1", Methods: []*Method{
			{Name: "GetOrder", Verb: "GET", Path: "/orders/:orderId", Request: []*Field{fld("orderId", T(TKeyID62))}, HasResponse: true, Response: []*Field{fld("order", RefTo(z.Decls[0].(*Decl), ""))}},
			{Name: "PutOrder", Verb: "PUT", Path: "/orders/:orderId", Request: []*Field{fld("orderId", T(TKeyID62)), fld("total", RefTo(money, "shop"))}, HasResponse: true},
		}})
		add("cross-package", x, y, w, z)
	}
	{ // one file importing four packages
		var files []*File
		m := file("m/v1", "main")
		var fields []*Field
		for _, n := range []string{"delta", "alpha", "charlie", "bravo"} {
			f := file(n+"/v1", "t")
			d := obj(UpperFirst(n), fld("x", T(TString)))
			f.Add(d)
			e := enumD(UpperFirst(n)+"Kind", "A", "B")
			f.Add(e)
			files = append(files, f)
			m.Imports = append(m.Imports, Import{Pkg: n + ".v1"})
			fields = append(fields, fld(n, RefTo(d, n)), fld(n+"Kind", RefTo(e, n)))
		}
		m.Add(obj("Main", fields...))
		add("many-imports", append([]*File{m}, files...)...)
	}
	{ // entity, service and topic in one package over two files
		f := file("t/v1", "a")
		info := obj("Info", fld("text", T(TString)), fld("count", T(TInt32)))
		f.Add(info)
		e := basicEntity("Foo", []*Field{fld("name", T(TString)), fld("info", RefTo(info, "")), fld("when", T(TTimestamp))}, []*Field{fld("name", T(TString)), fld("info", RefTo(info, ""))})
		e.Keys = append(e.Keys, &EntityKey{Field: fld("tenantId", T(TKeyID62)), Tenant: "account"})
		e.Events = append(e.Events, &Event{Name: "Rename", Fields: []*Field{fld("name", T(TString))}})
		e.Commands = []*Service{{Methods: []*Method{
			{Name: "CreateFoo", Verb: "POST", Path: "/:fooId/create", Request: []*Field{fld("fooId", T(TKeyID62)), fld("name", T(TString))}, HasResponse: true},
			{Name: "RenameFoo", Verb: "POST", Path: "/:fooId/rename", Request: []*Field{fld("fooId", T(TKeyID62)), fld("name", T(TString))}, HasResponse: true},
		}}}
		f.Add(e)
		g := file("t/v1", "b")
		g.Add(&Topic{Name: "Note", Kind: "publish", Messages: []*TopicMsg{{Name: "Created", Fields: []*Field{fld("info", RefTo(info, ""))}}, {Name: "Removed", Fields: []*Field{fld("id", T(TKeyID62))}}}})
		g.Add(&Service{Name: "Info", BasePath: "/t/v1/info", Methods: []*Method{{Name: "GetInfo", Verb: "GET", Path: "/:id", Request: []*Field{fld("id", T(TKeyID62))}, HasResponse: true, Response: []*Field{fld("info", RefTo(info, ""))}}}})
		add("entity-service-topic", f, g)
	}
	{ // several annotations on every field
		f := file("r/v1", "rules")
		kind := enumD("Kind", "ONE", "TWO", "THREE")
		// map-valued option entries: several info values per option, declared in an order that is not sorted
		kind.Info = []InfoField{{Name: "weight", Label: "Weight"}, {Name: "colour", Label: "Colour", Desc: "the colour"}, {Name: "shape", Label: "Shape"}}
		kind.Options[0].Info = map[string]string{"weight": "1", "colour": "red", "shape": "round"}
		kind.Options[2].Info = map[string]string{"shape": "square", "colour": "blue"}
		f.Add(kind)
		f.Add(obj("Ruled",
			&Field{Name: "name", T: T(TString), Required: true, Desc: "the name", Attrs: []string{"rules.minLength = 1", "rules.maxLength = 10", `rules.pattern = "^[a-z]+$"`, "listRules.searching.searchable = true"}},
			&Field{Name: "count", T: T(TInt64), Attrs: []string{"rules.minimum = 1", "rules.maximum = 10", "rules.exclusiveMaximum = true", "listRules.filtering.filterable = true", "listRules.sorting.sortable = true"}},
			&Field{Name: "ratio", T: T(TFloat64), Attrs: []string{"listRules.filtering.filterable = true", "listRules.sorting.sortable = true"}},
			&Field{Name: "id", T: T(TKeyUUID), Required: true, Attrs: []string{"listRules.filtering.filterable = true"}},
			&Field{Name: "kind", T: RefTo(kind, ""), Required: true, Attrs: []string{"rules.in = [\"ONE\", \"TWO\"]", "listRules.filtering.filterable = true"}},
			&Field{Name: "when", T: T(TTimestamp), Attrs: []string{"listRules.filtering.filterable = true", "listRules.sorting.sortable = true"}},
			&Field{Name: "tags", T: ArrayOf(T(TString)), Attrs: []string{"rules.minItems = 1", "rules.maxItems = 5", "rules.uniqueItems = true"}},
			&Field{Name: "flag", T: T(TBool), Optional: true, Attrs: []string{"listRules.filtering.filterable = true"}},
		))
		add("rules", f)
	}
	{ // a hand-written proto in a sub-directory declaring a message with the simple name of an object of the parent package
		a := file("s/v1", "a")
		foo := obj("Foo", fld("name", T(TString)))
		a.Add(foo)
		b := file("s/v1", "b")
		b.Add(obj("Bar", fld("foo", RefTo(foo, "")), fld("foos", ArrayOf(RefTo(foo, "")))))
		sub := &File{Dir: "s/v1/service", Name: "extra", IsProto: true, ListedOnly: true}
		sub.Add(obj("Foo", fld("other", T(TString))))
		sub.Add(enumD("Kind", "ONE"))
		c := file("s/v1", "c")
		c.Add(enumD("Kind", "A", "B"))
		c.Add(obj("Baz", fld("kind", RefTo(c.Decls[0].(*Decl), ""))))
		add("same-name-in-sub-directory", a, b, c, sub)
	}
	{ // a top-level object named like the request message a method of another file generates
		a := file("q/v1", "a")
		req := obj("PingRequest", fld("x", T(TString)))
		a.Add(req)
		b := file("q/v1", "b")
		b.Add(&Service{Name: "Thing", BasePath: "/q/v1", Methods: []*Method{{Name: "Ping", Verb: "POST", Path: "/ping", Request: []*Field{fld("v", T(TString))}, HasResponse: true, Response: []*Field{fld("w", T(TString))}}}})
		c := file("q/v1", "c")
		c.Add(obj("User", fld("r", RefTo(req, "")), fld("rs", ArrayOf(RefTo(req, "")))))
		add("object-named-like-generated-request", a, b, c)
	}
	{ // a versioned package below another local package's directory
		x := file("a/v1", "x")
		outer := obj("Outer", fld("name", T(TString)))
		x.Add(outer)
		y := file("a/v1/b/v2", "y")
		y.Imports = []Import{{Pkg: "a.v1", Alias: "up"}}
		y.Add(obj("Inner", fld("outer", RefTo(outer, "up")), fld("n", T(TInt32))))
		y.Add(enumD("Mode", "ON", "OFF"))
		add("nested-versioned-package", x, y)
	}
	{ // two imports that imply the same short name, used through that name; the type exists in both
		fo := file("foo/common/v1", "t")
		fo.Add(obj("Money", fld("amount", T(TDecimal))))
		ba := file("bar/common/v1", "t")
		money := obj("Money", fld("cents", T(TInt64)))
		ba.Add(money)
		m := file("m/v1", "main")
		m.Imports = []Import{{Pkg: "foo.common.v1"}, {Pkg: "bar.common.v1"}}
		m.Add(obj("Account", fld("balance", RefTo(money, "common")), fld("history", ArrayOf(RefTo(money, "common")))))
		add("same-short-import-name", m, fo, ba)
	}
	{ // nested inline types
		f := file("n/v1", "nest")
		deep := obj("", fld("x", T(TString)), fld("e", InlineOf(enumD("", "A", "B"))))
		choice := oneofD("", fld("one", InlineOf(obj("", fld("q", T(TString))))), fld("two", InlineOf(obj("", fld("r", T(TInt32))))))
		inner := obj("", fld("deep", InlineOf(deep)), fld("choice", InlineOf(choice)))
		f.Add(obj("Outer",
			fld("inner", InlineOf(inner)),
			fld("items", ArrayOf(InlineOf(obj("", fld("z", T(TBool)))))),
			fld("byName", MapOf(InlineOf(obj("", fld("w", T(TString)))))),
		))
		g := file("n/v1", "other")
		g.Add(obj("User", fld("outer", RefTo(f.Decls[0].(*Decl), ""))))
		add("nested", f, g)
	}
	return out
}
