package gj5s

import (
	"fmt"
	"sort"
	"strings"

	"google.golang.org/protobuf/types/descriptorpb"
)

type TKind int

const (
	TString TKind = iota
	TBool
	TInt32
	TInt64
	TUint32
	TUint64
	TFloat32
	TFloat64
	TBytes
	TKey
	TKeyID62
	TKeyUUID
	TDate
	TDecimal
	TTimestamp
	TAny
	TObject
	TOneof
	TEnum
	TArray
	TMap
)

var LeafKinds = []TKind{TString, TBool, TInt32, TInt64, TUint32, TUint64, TFloat32, TFloat64, TBytes, TKey, TKeyID62, TKeyUUID, TDate, TDecimal, TTimestamp, TAny}

var spell = map[TKind]string{
	TString: "string", TBool: "bool", TInt32: "integer:INT32", TInt64: "integer:INT64", TUint32: "integer:UINT32", TUint64: "integer:UINT64",
	TFloat32: "float:FLOAT32", TFloat64: "float:FLOAT64", TBytes: "bytes", TKey: "key", TKeyID62: "key:id62", TKeyUUID: "key:uuid",
	TDate: "date", TDecimal: "decimal", TTimestamp: "timestamp", TAny: "any", TObject: "object", TOneof: "oneof", TEnum: "enum", TArray: "array", TMap: "map",
}

func (k TKind) String() string { return spell[k] }

type DKind int

const (
	DObject DKind = iota
	DOneof
	DEnum
)

// Decl is an object, oneof or enum declaration (top level, nested or inline).
type Decl struct {
	Kind    DKind
	Name    string
	Desc    []string // description lines
	Fields  []*Field // object fields / oneof options
	Options []EnumOpt
	Prefix  string // enum prefix override ("" = default)
	Info    []InfoField // enum: declared info fields
	ExplicitUnspecified bool

	File   *File // set when the declaration is added to a file (top level)
	Parent *Decl // enclosing declaration for inline types
}

type InfoField struct {
	Name, Label, Desc string
}

type EnumOpt struct {
	Name string
	Desc string
	// Info: values of the enum's info fields for this option (sorted by key when rendered)
	Info map[string]string
	// Number: explicit value number (hand-written proto enums only); 0 = position
	Number int32
}

// Num is the value number of option i of an enum.
func (o EnumOpt) Num(i int) int32 {
	if o.Number != 0 {
		return o.Number
	}
	return int32(i + 1)
}

// Ref is a reference to a declared type.
type Ref struct {
	Qualifier string // "" local; otherwise how the source spells the package part
	To        *Decl
}

type Type struct {
	K      TKind
	Ref    *Ref  // object / oneof / enum by reference
	Inline *Decl // object / oneof / enum declared inline
	NameOverride string // object.name / enum.name / oneof.name for inline types
	Elem   *Type // array / map item
}

func T(k TKind) *Type                 { return &Type{K: k} }
func ArrayOf(e *Type) *Type           { return &Type{K: TArray, Elem: e} }
func MapOf(e *Type) *Type             { return &Type{K: TMap, Elem: e} }
func RefTo(d *Decl, qual string) *Type {
	k := TObject
	switch d.Kind {
	case DOneof:
		k = TOneof
	case DEnum:
		k = TEnum
	}
	return &Type{K: k, Ref: &Ref{Qualifier: qual, To: d}}
}
func InlineOf(d *Decl) *Type {
	k := TObject
	switch d.Kind {
	case DOneof:
		k = TOneof
	case DEnum:
		k = TEnum
	}
	return &Type{K: k, Inline: d}
}

type Field struct {
	Name     string
	T        *Type
	Required bool
	Optional bool
	UseMark  bool     // spell required / optional with ! / ? instead of a body attribute
	Desc     string   // single trailing or body description
	Flatten  bool
	Attrs    []string // extra body lines (rules etc.), rendered verbatim
	Keyword  string   // "field" (default), "option", "key", "data"
	Rule     *RuleSpec // semantic form of Attrs, when the field comes from the rule matrix
}

type Import struct {
	Pkg   string
	Alias string
}

type Method struct {
	Name        string
	Verb        string
	Path        string
	Request     []*Field
	Response    []*Field
	HasResponse bool
}

type Service struct {
	Name     string
	BasePath string
	Methods  []*Method
	Attrs    []string // extra body lines (options.audience = [...]), rendered verbatim
}

type TopicMsg struct {
	Name   string
	Fields []*Field
}

type Topic struct {
	Name     string
	Kind     string // publish | reqres | upsert
	Messages []*TopicMsg
	Request  []*Field
	Reply    []*Field
}

type File struct {
	Dir     string // foo/v1
	Name    string // a  (file foo/v1/a.j5s)
	Imports []Import
	Decls   []any // *Decl, *Service, *Topic, *Entity
	// IsProto: a hand-written proto3 file (foo/v1/a.proto) holding plain
	// messages and enums; ProtoImports are its import paths.
	IsProto      bool
	ProtoImports []string
	// IsDep: the file is not part of the bundle but an external dependency,
	// handed to the compiler as a descriptor (plain messages and enums).
	IsDep bool
	// ListedOnly: the file is in the bundle's file listing but its directory is not offered
	// as a package to compile (a hand-written file below a package's sub-directory)
	ListedOnly bool
}

func (f *File) Package() string { return strings.ReplaceAll(f.Dir, "/", ".") }
func (f *File) Path() string {
	if f.IsProto {
		return f.Dir + "/" + f.Name + ".proto"
	}
	return f.Dir + "/" + f.Name + ".j5s"
}

// OutPath is the path of the compiled descriptor of the file.
func (f *File) OutPath() string {
	if f.IsProto {
		return f.Dir + "/" + f.Name + ".proto"
	}
	return f.Dir + "/" + f.Name + ".j5s.proto"
}

func (f *File) Add(d any) {
	if dd, ok := d.(*Decl); ok {
		dd.File = f
	}
	f.Decls = append(f.Decls, d)
}

type Program struct {
	Files []*File
	// ImageDeps: hand the external dependency files to the compiler through the tool's own
	// dependency set (internal/source), not through the harness's map
	ImageDeps bool
}

// ---------- names ----------

// Snake: fooId -> foo_id (names are restricted to [a-z]+([A-Z][a-z]+)* so the
// conversion is unambiguous).
func Snake(s string) string {
	var sb strings.Builder
	for i, c := range s {
		if c >= 'A' && c <= 'Z' {
			if i > 0 {
				sb.WriteByte('_')
			}
			sb.WriteRune(c + 32)
		} else {
			sb.WriteRune(c)
		}
	}
	return sb.String()
}

func UpperFirst(s string) string {
	if s == "" {
		return s
	}
	return strings.ToUpper(s[:1]) + s[1:]
}

func LowerFirst(s string) string {
	if s == "" {
		return s
	}
	return strings.ToLower(s[:1]) + s[1:]
}

func Screaming(s string) string { return strings.ToUpper(Snake(LowerFirst(s))) }

// ---------- rendering ----------

func (p *Program) Bundle() *Bundle {
	b := NewBundle()
	b.ImageDeps = p.ImageDeps
	for _, f := range p.Files {
		if f.IsDep {
			if b.Deps == nil {
				b.Deps = map[string]*descriptorpb.FileDescriptorProto{}
			}
			b.Deps[f.OutPath()] = f.depDescriptor()
			continue
		}
		if f.ListedOnly {
			b.Files[f.Path()] = f.Render()
			continue
		}
		b.Add(f.Path(), f.Render())
	}
	return b
}

// depDescriptor: the descriptor of a dependency file (strings, int32, refs only).
func (f *File) depDescriptor() *descriptorpb.FileDescriptorProto {
	str := func(s string) *string { return &s }
	i32 := func(i int32) *int32 { return &i }
	fdp := &descriptorpb.FileDescriptorProto{Name: str(f.OutPath()), Package: str(f.Package()), Syntax: str("proto3"), Dependency: f.ProtoImports}
	for _, d := range f.Decls {
		dd := d.(*Decl)
		if dd.Kind == DEnum {
			e := &descriptorpb.EnumDescriptorProto{Name: str(dd.Name)}
			e.Value = append(e.Value, &descriptorpb.EnumValueDescriptorProto{Name: str(Screaming(dd.Name) + "_UNSPECIFIED"), Number: i32(0)})
			for i, o := range dd.Options {
				e.Value = append(e.Value, &descriptorpb.EnumValueDescriptorProto{Name: str(Screaming(dd.Name) + "_" + o.Name), Number: i32(o.Num(i))})
			}
			fdp.EnumType = append(fdp.EnumType, e)
			continue
		}
		m := &descriptorpb.DescriptorProto{Name: str(dd.Name)}
		for i, fd := range dd.Fields {
			pf := &descriptorpb.FieldDescriptorProto{Name: str(Snake(fd.Name)), JsonName: str(fd.Name), Number: i32(int32(i + 1)), Label: descriptorpb.FieldDescriptorProto_LABEL_OPTIONAL.Enum()}
			switch fd.T.K {
			case TString:
				pf.Type = descriptorpb.FieldDescriptorProto_TYPE_STRING.Enum()
			case TInt32:
				pf.Type = descriptorpb.FieldDescriptorProto_TYPE_INT32.Enum()
			case TBool:
				pf.Type = descriptorpb.FieldDescriptorProto_TYPE_BOOL.Enum()
			case TEnum:
				pf.Type = descriptorpb.FieldDescriptorProto_TYPE_ENUM.Enum()
				pf.TypeName = str("." + fd.T.Ref.To.FullName())
			default:
				pf.Type = descriptorpb.FieldDescriptorProto_TYPE_MESSAGE.Enum()
				pf.TypeName = str("." + fd.T.Ref.To.FullName())
			}
			m.Field = append(m.Field, pf)
		}
		fdp.MessageType = append(fdp.MessageType, m)
	}
	return fdp
}

type w struct {
	sb     strings.Builder
	indent int
}

func (o *w) p(format string, a ...any) {
	o.sb.WriteString(strings.Repeat("\t", o.indent))
	fmt.Fprintf(&o.sb, format, a...)
	o.sb.WriteString("\n")
}

// renderProto spells a hand-written proto3 file: plain messages and enums only.
func (f *File) renderProto() string {
	o := &w{}
	o.p("syntax = \"proto3\";")
	o.p("")
	o.p("package %s;", f.Package())
	if len(f.ProtoImports) > 0 {
		o.p("")
	}
	for _, im := range f.ProtoImports {
		o.p("import %q;", im)
	}
	for _, d := range f.Decls {
		dd := d.(*Decl)
		o.p("")
		switch dd.Kind {
		case DEnum:
			o.p("enum %s {", dd.Name)
			o.indent++
			o.p("%s_UNSPECIFIED = 0;", Screaming(dd.Name))
			for i, opt := range dd.Options {
				o.p("%s_%s = %d;", Screaming(dd.Name), opt.Name, opt.Num(i))
			}
			o.indent--
			o.p("}")
		default:
			o.p("message %s {", dd.Name)
			o.indent++
			for i, fd := range dd.Fields {
				o.p("%s %s = %d;", protoTypeSpelling(fd.T), Snake(fd.Name), i+1)
			}
			o.indent--
			o.p("}")
		}
	}
	return o.sb.String()
}

func protoTypeSpelling(t *Type) string {
	switch t.K {
	case TArray:
		return "repeated " + protoTypeSpelling(t.Elem)
	case TMap:
		return "map<string, " + protoTypeSpelling(t.Elem) + ">"
	case TString:
		return "string"
	case TBool:
		return "bool"
	case TInt32:
		return "int32"
	case TInt64:
		return "int64"
	case TObject, TEnum, TOneof:
		return t.Ref.To.FullName()
	}
	panic("protoTypeSpelling: " + t.K.String())
}

func (f *File) Render() string {
	if f.IsProto {
		return f.renderProto()
	}
	o := &w{}
	o.p("package %s", f.Package())
	if len(f.Imports) > 0 {
		o.p("")
	}
	for _, im := range f.Imports {
		if im.Alias != "" {
			o.p("import %s:%s", im.Pkg, im.Alias)
		} else {
			o.p("import %s", im.Pkg)
		}
	}
	for _, d := range f.Decls {
		o.p("")
		switch d := d.(type) {
		case *Decl:
			renderDecl(o, d)
		case *Service:
			renderService(o, d)
		case *Topic:
			renderTopic(o, d)
		case *Entity:
			renderEntity(o, d)
		}
	}
	return o.sb.String()
}

func renderDesc(o *w, lines []string) {
	for _, l := range lines {
		if l == "" {
			o.p("|")
		} else {
			o.p("| %s", l)
		}
	}
	if len(lines) > 0 {
		o.p("")
	}
}

func renderDecl(o *w, d *Decl) {
	switch d.Kind {
	case DObject:
		o.p("object %s {", d.Name)
	case DOneof:
		o.p("oneof %s {", d.Name)
	case DEnum:
		o.p("enum %s {", d.Name)
	}
	o.indent++
	renderDeclBody(o, d)
	o.indent--
	o.p("}")
}

func renderDeclBody(o *w, d *Decl) {
	renderDesc(o, d.Desc)
	switch d.Kind {
	case DObject:
		for _, f := range d.Fields {
			renderField(o, f, "field")
		}
	case DOneof:
		for _, f := range d.Fields {
			renderField(o, f, "option")
		}
	case DEnum:
		if d.Prefix != "" {
			o.p("prefix = %q", d.Prefix)
		}
		for _, inf := range d.Info {
			o.p("info {")
			o.indent++
			o.p("name = %q", inf.Name)
			if inf.Label != "" {
				o.p("label = %q", inf.Label)
			}
			if inf.Desc != "" {
				o.p("description = %q", inf.Desc)
			}
			o.indent--
			o.p("}")
		}
		if d.ExplicitUnspecified {
			o.p("option UNSPECIFIED")
		}
		for _, opt := range d.Options {
			if len(opt.Info) > 0 {
				o.p("option %s {", opt.Name)
				o.indent++
				if opt.Desc != "" {
					o.p("| %s", opt.Desc)
					o.p("")
				}
				var keys []string
				for k := range opt.Info {
					keys = append(keys, k)
				}
				sort.Strings(keys)
				for _, k := range keys {
					o.p("info.%s = %q", k, opt.Info[k])
				}
				o.indent--
				o.p("}")
				continue
			}
			if opt.Desc != "" {
				o.p("option %s | %s", opt.Name, opt.Desc)
			} else {
				o.p("option %s", opt.Name)
			}
		}
	}
}

// typeSpelling returns the qualifier chain (string:…) and whether a body with
// an inline declaration is needed.
func typeSpelling(t *Type) (string, *Type) {
	switch t.K {
	case TArray, TMap:
		inner, inl := typeSpelling(t.Elem)
		return t.K.String() + ":" + inner, inl
	case TObject, TOneof, TEnum:
		if t.Ref != nil {
			name := t.Ref.To.Name
			if t.Ref.Qualifier != "" {
				name = t.Ref.Qualifier + "." + name
			}
			return t.K.String() + ":" + name, nil
		}
		return t.K.String(), t
	}
	return t.K.String(), nil
}

func renderField(o *w, f *Field, kw string) {
	if f.Keyword != "" {
		kw = f.Keyword
	}
	sp, inl := typeSpelling(f.T)
	mark := ""
	var body []string
	if f.Required {
		if f.UseMark {
			mark = "! "
		} else {
			body = append(body, "required = true")
		}
	}
	if f.Optional {
		if f.UseMark {
			mark = "? "
		} else {
			body = append(body, "optional = true")
		}
	}
	if f.Flatten {
		body = append(body, "flatten = true")
	}
	body = append(body, f.Attrs...)
	head := fmt.Sprintf("%s %s %s%s", kw, f.Name, mark, sp)
	if inl == nil && len(body) == 0 {
		if f.Desc != "" {
			o.p("%s | %s", head, f.Desc)
		} else {
			o.p("%s", head)
		}
		return
	}
	o.p("%s {", head)
	o.indent++
	if f.Desc != "" {
		o.p("| %s", f.Desc)
		o.p("")
	}
	for _, l := range body {
		o.p("%s", l)
	}
	if inl != nil {
		if inl.NameOverride != "" {
			o.p("%s.name = %q", inl.K.String(), inl.NameOverride)
		}
		if inl.Inline.Kind == DEnum && inl.Inline.Prefix != "" {
			// inline enums take their attributes through the "enum." path
			o.p("enum.prefix = %q", inl.Inline.Prefix)
			cp := *inl.Inline
			cp.Prefix = ""
			renderDeclBody(o, &cp)
		} else {
			renderDeclBody(o, inl.Inline)
		}
	}
	o.indent--
	o.p("}")
}

func renderService(o *w, s *Service) {
	o.p("service %s {", s.Name)
	o.indent++
	if s.BasePath != "" {
		o.p("basePath = %q", s.BasePath)
	}
	for _, a := range s.Attrs {
		o.p("%s", a)
	}
	for _, m := range s.Methods {
		renderMethod(o, m)
	}
	o.indent--
	o.p("}")
}

func renderMethod(o *w, m *Method) {
	o.p("method %s {", m.Name)
	o.indent++
	o.p("httpMethod = %q", m.Verb)
	o.p("httpPath = %q", m.Path)
	o.p("request {")
	o.indent++
	for _, f := range m.Request {
		renderField(o, f, "field")
	}
	o.indent--
	o.p("}")
	if m.HasResponse {
		o.p("response {")
		o.indent++
		for _, f := range m.Response {
			renderField(o, f, "field")
		}
		o.indent--
		o.p("}")
	}
	o.indent--
	o.p("}")
}

func renderTopic(o *w, t *Topic) {
	o.p("topic %s %s {", t.Name, t.Kind)
	o.indent++
	block := func(kw string, fields []*Field) {
		o.p("%s {", kw)
		o.indent++
		for _, f := range fields {
			renderField(o, f, "field")
		}
		o.indent--
		o.p("}")
	}
	switch t.Kind {
	case "publish", "upsert":
		for _, m := range t.Messages {
			block("message "+m.Name, m.Fields)
		}
	case "reqres":
		block("request", t.Request)
		block("reply", t.Reply)
	}
	o.indent--
	o.p("}")
}
