package gj5s

import (
	"fmt"
	"strings"

	"github.com/pentops/j5/gen/j5/list/v1/list_j5pb"
	"github.com/pentops/j5/gen/j5/schema/v1/schema_j5pb"
	"google.golang.org/protobuf/proto"
	"google.golang.org/protobuf/reflect/protodesc"
	"google.golang.org/protobuf/reflect/protoreflect"
	"google.golang.org/protobuf/reflect/protoregistry"
	"google.golang.org/protobuf/types/descriptorpb"
)

// Relink turns compiled files into a registry whose options are typed Go
// messages (the route `j5` itself takes: descriptors -> bytes -> protodesc).
func Relink(files []protoreflect.FileDescriptor) (*protoregistry.Files, error) {
	set := &descriptorpb.FileDescriptorSet{}
	seen := map[string]bool{}
	var add func(fd protoreflect.FileDescriptor)
	add = func(fd protoreflect.FileDescriptor) {
		if seen[fd.Path()] {
			return
		}
		seen[fd.Path()] = true
		imps := fd.Imports()
		for i := 0; i < imps.Len(); i++ {
			add(imps.Get(i).FileDescriptor)
		}
		set.File = append(set.File, protodesc.ToFileDescriptorProto(fd))
	}
	for _, fd := range files {
		add(fd)
	}
	b, err := proto.Marshal(set)
	if err != nil {
		return nil, err
	}
	set2 := &descriptorpb.FileDescriptorSet{}
	if err := proto.Unmarshal(b, set2); err != nil {
		return nil, err
	}
	return protodesc.NewFiles(set2)
}

// ---------- expected J5 schemas of a program ----------

// ExpectedSchemas: schema name ("pkg/Name", nested as Parent_Child) -> root schema.
func (p *Program) ExpectedSchemas() map[string]*schema_j5pb.RootSchema {
	out := map[string]*schema_j5pb.RootSchema{}
	for _, f := range p.Files {
		for _, d := range f.Decls {
			if dd, ok := d.(*Decl); ok {
				expectDecl(out, f.Package(), dd.Name, dd)
			}
			if e, ok := d.(*Entity); ok {
				expectEntity(out, f.Package(), e)
			}
		}
	}
	return out
}

func expectDecl(out map[string]*schema_j5pb.RootSchema, pkg, schemaName string, d *Decl) {
	desc := strings.Join(d.Desc, "\n")
	switch d.Kind {
	case DEnum:
		prefix := d.Prefix
		if prefix == "" {
			last := schemaName
			if i := strings.LastIndex(last, "_"); i >= 0 {
				last = last[i+1:]
			}
			prefix = Screaming(last) + "_"
		}
		e := &schema_j5pb.Enum{Name: schemaName, Description: desc, Prefix: prefix}
		opts := d.Options
		zero := &schema_j5pb.Enum_Option{Name: "UNSPECIFIED", Number: 0}
		if len(opts) > 0 && strings.HasSuffix(opts[0].Name, "UNSPECIFIED") {
			// a first option ending in UNSPECIFIED is the zero option, spelled by the author
			zero = &schema_j5pb.Enum_Option{Name: strings.TrimPrefix(opts[0].Name, prefix), Number: 0, Description: opts[0].Desc, Info: opts[0].Info}
			opts = opts[1:]
		}
		e.Options = append(e.Options, zero)
		for i, o := range opts {
			e.Options = append(e.Options, &schema_j5pb.Enum_Option{Name: o.Name, Number: o.Num(i), Description: o.Desc, Info: o.Info})
		}
		for _, inf := range d.Info {
			e.Info = append(e.Info, &schema_j5pb.Enum_OptionInfoField{Name: inf.Name, Label: inf.Label, Description: inf.Desc})
		}
		out[pkg+"/"+schemaName] = &schema_j5pb.RootSchema{Type: &schema_j5pb.RootSchema_Enum{Enum: e}}
	case DObject:
		o := &schema_j5pb.Object{Name: schemaName, Description: desc}
		for i, f := range d.Fields {
			o.Properties = append(o.Properties, expectProp(out, pkg, schemaName, f, int32(i+1)))
		}
		out[pkg+"/"+schemaName] = &schema_j5pb.RootSchema{Type: &schema_j5pb.RootSchema_Object{Object: o}}
	case DOneof:
		o := &schema_j5pb.Oneof{Name: schemaName, Description: desc}
		for i, f := range d.Fields {
			o.Properties = append(o.Properties, expectProp(out, pkg, schemaName, f, int32(i+1)))
		}
		out[pkg+"/"+schemaName] = &schema_j5pb.RootSchema{Type: &schema_j5pb.RootSchema_Oneof{Oneof: o}}
	}
}

func expectProp(out map[string]*schema_j5pb.RootSchema, pkg, parent string, f *Field, num int32) *schema_j5pb.ObjectProperty {
	desc := f.Desc
	leaf := f.T
	for leaf.K == TArray || leaf.K == TMap {
		leaf = leaf.Elem
	}
	if inl := leaf.Inline; desc == "" && inl != nil && len(inl.Desc) > 0 {
		desc = strings.Join(inl.Desc, "\n")
	}
	return &schema_j5pb.ObjectProperty{
		Name:               f.Name,
		Required:           f.Required,
		ExplicitlyOptional: f.Optional,
		Description:        desc,
		ProtoField:         []int32{num},
		Schema:             expectField(out, pkg, parent, f, f.T),
	}
}

func expectField(out map[string]*schema_j5pb.RootSchema, pkg, parent string, f *Field, t *Type) *schema_j5pb.Field {
	return expectFieldRS(out, pkg, parent, f, t, f.Rule)
}

func expectFieldRS(out map[string]*schema_j5pb.RootSchema, pkg, parent string, f *Field, t *Type, rs *RuleSpec) *schema_j5pb.Field {
	if rs != nil && rs.Array && t.K != TArray {
		rs = rs.Item // the rules of the items of an array
	}
	switch t.K {
	case TString:
		sf := &schema_j5pb.StringField{}
		if rs != nil && (rs.Family == "string" || rs.Family == "string-format") && (rs.MinLen != nil || rs.MaxLen != nil || rs.Pattern != nil) {
			sf.Rules = &schema_j5pb.StringField_Rules{MinLength: rs.MinLen, MaxLength: rs.MaxLen, Pattern: rs.Pattern}
		}
		if rs != nil && rs.ListSearchable {
			sf.ListRules = &list_j5pb.OpenTextRules{Searching: &list_j5pb.SearchingConstraint{Searchable: true}}
		}
		if f != nil {
			if v := attrString(f.Attrs, "format"); v != nil {
				sf.Format = v
			}
			if v := attrString(f.Attrs, "itemSchema.string.rules.minLength"); false && v != nil {
				_ = v
			}
			for _, a := range f.Attrs {
				var n uint64
				if _, err := fmt.Sscanf(a, "itemSchema.string.rules.minLength = %d", &n); err == nil {
					x := n
					sf.Rules = &schema_j5pb.StringField_Rules{MinLength: &x}
				}
				if a == "items.string.listRules.searching.searchable = true" {
					sf.ListRules = &list_j5pb.OpenTextRules{Searching: &list_j5pb.SearchingConstraint{Searchable: true}}
				}
			}
		}
		return &schema_j5pb.Field{Type: &schema_j5pb.Field_String_{String_: sf}}
	case TBool:
		bf := &schema_j5pb.BoolField{}
		if rs != nil && rs.Const != nil {
			bf.Rules = &schema_j5pb.BoolField_Rules{Const: rs.Const}
		}
		if rs != nil && rs.ListFilter {
			bf.ListRules = &list_j5pb.BoolRules{Filtering: &list_j5pb.FilteringConstraint{Filterable: true}}
		}
		return &schema_j5pb.Field{Type: &schema_j5pb.Field_Bool{Bool: bf}}
	case TInt32, TInt64, TUint32, TUint64:
		format := map[TKind]schema_j5pb.IntegerField_Format{TInt32: schema_j5pb.IntegerField_FORMAT_INT32, TInt64: schema_j5pb.IntegerField_FORMAT_INT64, TUint32: schema_j5pb.IntegerField_FORMAT_UINT32, TUint64: schema_j5pb.IntegerField_FORMAT_UINT64}[t.K]
		inf := &schema_j5pb.IntegerField{Format: format}
		if rs != nil && rs.Family == "integer" && (rs.Min != nil || rs.Max != nil) {
			r := &schema_j5pb.IntegerField_Rules{Minimum: rs.Min, Maximum: rs.Max}
			// an exclusive flag that is false says the same as an absent one
			if rs.ExclMin != nil && *rs.ExclMin {
				r.ExclusiveMinimum = rs.ExclMin
			}
			if rs.ExclMax != nil && *rs.ExclMax {
				r.ExclusiveMaximum = rs.ExclMax
			}
			inf.Rules = r
		}
		if rs != nil && rs.ListFilter {
			inf.ListRules = &list_j5pb.IntegerRules{Filtering: &list_j5pb.FilteringConstraint{Filterable: true}}
			if rs.ListSort {
				inf.ListRules.Sorting = &list_j5pb.SortingConstraint{Sortable: true}
			}
		}
		if f != nil {
			for _, a := range f.Attrs {
				if a == "items.integer.listRules.filtering.filterable = true" {
					inf.ListRules = &list_j5pb.IntegerRules{Filtering: &list_j5pb.FilteringConstraint{Filterable: true}}
				}
				var n int64
				if _, err := fmt.Sscanf(a, "itemSchema.integer.rules.minimum = %d", &n); err == nil {
					x := n
					inf.Rules = &schema_j5pb.IntegerField_Rules{Minimum: &x}
				}
			}
		}
		return &schema_j5pb.Field{Type: &schema_j5pb.Field_Integer{Integer: inf}}
	case TFloat32, TFloat64:
		format := schema_j5pb.FloatField_FORMAT_FLOAT32
		if t.K == TFloat64 {
			format = schema_j5pb.FloatField_FORMAT_FLOAT64
		}
		ff := &schema_j5pb.FloatField{Format: format}
		if rs != nil && rs.ListFilter {
			ff.ListRules = &list_j5pb.FloatRules{Filtering: &list_j5pb.FilteringConstraint{Filterable: true}, Sorting: &list_j5pb.SortingConstraint{Sortable: true}}
		}
		return &schema_j5pb.Field{Type: &schema_j5pb.Field_Float{Float: ff}}
	case TBytes:
		bf := &schema_j5pb.BytesField{}
		if rs != nil && rs.Family == "bytes" && (rs.MinLen != nil || rs.MaxLen != nil) {
			bf.Rules = &schema_j5pb.BytesField_Rules{MinLength: rs.MinLen, MaxLength: rs.MaxLen}
		}
		return &schema_j5pb.Field{Type: &schema_j5pb.Field_Bytes{Bytes: bf}}
	case TKey, TKeyID62, TKeyUUID:
		kf := &schema_j5pb.KeyField{}
		switch {
		case rs != nil && rs.KeyFormat == "custom":
			kf.Format = &schema_j5pb.KeyFormat{Type: &schema_j5pb.KeyFormat_Custom_{Custom: &schema_j5pb.KeyFormat_Custom{Pattern: *rs.Pattern}}}
		case t.K == TKeyID62:
			kf.Format = &schema_j5pb.KeyFormat{Type: &schema_j5pb.KeyFormat_Id62{Id62: &schema_j5pb.KeyFormat_ID62{}}}
		case t.K == TKeyUUID:
			kf.Format = &schema_j5pb.KeyFormat{Type: &schema_j5pb.KeyFormat_Uuid{Uuid: &schema_j5pb.KeyFormat_UUID{}}}
		}
		for _, a := range f.Attrs {
			if strings.HasPrefix(a, "foreign = ") {
				parts := strings.Split(strings.Trim(strings.TrimPrefix(a, "foreign = "), "\""), ".")
				kf.Entity = &schema_j5pb.EntityKey{Type: &schema_j5pb.EntityKey_ForeignKey{ForeignKey: &schema_j5pb.EntityRef{Package: strings.Join(parts[:len(parts)-1], "."), Entity: parts[len(parts)-1]}}}
			}
		}
		if rs != nil && rs.ListFilter {
			kf.ListRules = &list_j5pb.KeyRules{Filtering: &list_j5pb.FilteringConstraint{Filterable: true}}
		}
		return &schema_j5pb.Field{Type: &schema_j5pb.Field_Key{Key: kf}}
	case TDate:
		df := &schema_j5pb.DateField{}
		if rs != nil && rs.Family == "date" && rs.StrMin != nil {
			df.Rules = &schema_j5pb.DateField_Rules{Minimum: rs.StrMin, Maximum: rs.StrMax, ExclusiveMinimum: rs.ExclMin, ExclusiveMaximum: rs.ExclMax}
		}
		if rs != nil && rs.ListFilter {
			df.ListRules = &list_j5pb.DateRules{Filtering: &list_j5pb.FilteringConstraint{Filterable: true}}
		}
		return &schema_j5pb.Field{Type: &schema_j5pb.Field_Date{Date: df}}
	case TDecimal:
		df := &schema_j5pb.DecimalField{}
		if rs != nil && rs.Family == "decimal" && rs.StrMin != nil {
			df.Rules = &schema_j5pb.DecimalField_Rules{Minimum: rs.StrMin, Maximum: rs.StrMax, ExclusiveMinimum: rs.ExclMin, ExclusiveMaximum: rs.ExclMax}
		}
		if rs != nil && rs.ListFilter {
			df.ListRules = &list_j5pb.DecimalRules{Filtering: &list_j5pb.FilteringConstraint{Filterable: true}, Sorting: &list_j5pb.SortingConstraint{Sortable: true}}
		}
		return &schema_j5pb.Field{Type: &schema_j5pb.Field_Decimal{Decimal: df}}
	case TTimestamp:
		tf := &schema_j5pb.TimestampField{}
		if rs != nil && rs.ListFilter {
			tf.ListRules = &list_j5pb.TimestampRules{Filtering: &list_j5pb.FilteringConstraint{Filterable: true}, Sorting: &list_j5pb.SortingConstraint{Sortable: true}}
		}
		return &schema_j5pb.Field{Type: &schema_j5pb.Field_Timestamp{Timestamp: tf}}
	case TAny:
		af := &schema_j5pb.AnyField{}
		if f != nil {
			for _, a := range f.Attrs {
				if a == "onlyDefined = true" {
					af.OnlyDefined = true
				}
				if strings.HasPrefix(a, "types = [") {
					for _, x := range strings.Split(strings.TrimSuffix(strings.TrimPrefix(a, "types = ["), "]"), ",") {
						af.Types = append(af.Types, strings.Trim(strings.TrimSpace(x), "\""))
					}
				}
			}
		}
		return &schema_j5pb.Field{Type: &schema_j5pb.Field_Any{Any: af}}
	case TArray:
		af := &schema_j5pb.ArrayField{Items: expectFieldRS(out, pkg, parent, f, t.Elem, rs)}
		if rs != nil && rs.Array && (rs.MinItems != nil || rs.MaxItems != nil || rs.Unique != nil) {
			af.Rules = &schema_j5pb.ArrayField_Rules{MinItems: rs.MinItems, MaxItems: rs.MaxItems, UniqueItems: rs.Unique}
		}
		if sf := attrString(f.Attrs, "ext.singleForm"); sf != nil {
			af.Ext = &schema_j5pb.ArrayField_Ext{SingleForm: sf}
		}
		return &schema_j5pb.Field{Type: &schema_j5pb.Field_Array{Array: af}}
	case TMap:
		mf := &schema_j5pb.MapField{
			ItemSchema: expectField(out, pkg, parent, f, t.Elem),
			KeySchema:  &schema_j5pb.Field{Type: &schema_j5pb.Field_String_{String_: &schema_j5pb.StringField{}}}, // map keys are strings
		}
		if sf := attrString(f.Attrs, "ext.singleForm"); sf != nil {
			mf.Ext = &schema_j5pb.MapField_Ext{SingleForm: sf}
		}
		for _, a := range f.Attrs {
			var v uint64
			if _, err := fmt.Sscanf(a, "rules.minPairs = %d", &v); err == nil {
				if mf.Rules == nil {
					mf.Rules = &schema_j5pb.MapField_Rules{}
				}
				x := v
				mf.Rules.MinPairs = &x
			}
			if _, err := fmt.Sscanf(a, "rules.maxPairs = %d", &v); err == nil {
				if mf.Rules == nil {
					mf.Rules = &schema_j5pb.MapField_Rules{}
				}
				x := v
				mf.Rules.MaxPairs = &x
			}
		}
		return &schema_j5pb.Field{Type: &schema_j5pb.Field_Map{Map: mf}}
	case TObject, TOneof, TEnum:
		var ref *schema_j5pb.Ref
		if t.Ref != nil {
			ref = &schema_j5pb.Ref{Package: t.Ref.To.File.Package(), Schema: t.Ref.To.Name}
		} else {
			name := UpperFirst(f.Name)
			if t.NameOverride != "" {
				name = t.NameOverride
			}
			full := parent + "_" + name
			cp := *t.Inline
			cp.Name = full
			cp.Desc = nil // a description at the top of an inline body belongs to the field
			expectDecl(out, pkg, full, &cp)
			ref = &schema_j5pb.Ref{Package: pkg, Schema: full}
		}
		switch t.K {
		case TObject:
			of := &schema_j5pb.ObjectField{Schema: &schema_j5pb.ObjectField_Ref{Ref: ref}, Flatten: f.Flatten}
			if rs != nil && rs.Family == "object" {
				for _, a := range rs.Attrs {
					var v uint64
					if _, err := fmt.Sscanf(a, "rules.minProperties = %d", &v); err == nil {
						if of.Rules == nil {
							of.Rules = &schema_j5pb.ObjectField_Rules{}
						}
						of.Rules.MinProperties = &v
					}
					var w uint64
					if _, err := fmt.Sscanf(a, "rules.maxProperties = %d", &w); err == nil {
						if of.Rules == nil {
							of.Rules = &schema_j5pb.ObjectField_Rules{}
						}
						of.Rules.MaxProperties = &w
					}
				}
			}
			return &schema_j5pb.Field{Type: &schema_j5pb.Field_Object{Object: of}}
		case TOneof:
			oo := &schema_j5pb.OneofField{Schema: &schema_j5pb.OneofField_Ref{Ref: ref}}
			if rs != nil && rs.ListFilter {
				oo.ListRules = &list_j5pb.OneofRules{Filtering: &list_j5pb.FilteringConstraint{Filterable: true}}
			}
			return &schema_j5pb.Field{Type: &schema_j5pb.Field_Oneof{Oneof: oo}}
		default:
			ef := &schema_j5pb.EnumField{Schema: &schema_j5pb.EnumField_Ref{Ref: ref}}
			if rs != nil && (len(rs.In) > 0 || len(rs.NotIn) > 0) {
				ef.Rules = &schema_j5pb.EnumField_Rules{In: rs.In, NotIn: rs.NotIn}
			}
			if rs != nil && rs.ListFilter {
				ef.ListRules = &list_j5pb.EnumRules{Filtering: &list_j5pb.FilteringConstraint{Filterable: true}}
			}
			return &schema_j5pb.Field{Type: &schema_j5pb.Field_Enum{Enum: ef}}
		}
	}
	panic(fmt.Sprintf("expectField: %v", t.K))
}

// NormalizeSchema makes empty rule / ext messages equal to absent ones.
func NormalizeSchema(m proto.Message) {
	var walk func(msg protoreflect.Message)
	walk = func(msg protoreflect.Message) {
		msg.Range(func(fd protoreflect.FieldDescriptor, v protoreflect.Value) bool {
			switch {
			case fd.IsList() && fd.Message() != nil:
				l := v.List()
				for i := 0; i < l.Len(); i++ {
					walk(l.Get(i).Message())
				}
			case fd.IsMap():
			case fd.Message() != nil:
				sub := v.Message()
				walk(sub)
				name := string(fd.Name())
				if name == "format" && sub.Descriptor().Name() == "KeyFormat" {
					// an informal key format and no key format are the same declaration
					if od := sub.Descriptor().Oneofs().ByName("type"); od != nil {
						if w := sub.WhichOneof(od); w != nil && w.Name() == "informal" {
							msg.Clear(fd)
							return true
						}
					}
				}
				if name == "rules" || name == "ext" || name == "list_rules" || name == "filtering" || name == "sorting" || name == "searching" {
					empty := true
					sub.Range(func(protoreflect.FieldDescriptor, protoreflect.Value) bool { empty = false; return false })
					if empty {
						msg.Clear(fd)
					}
				}
			}
			return true
		})
	}
	walk(m.ProtoReflect())
}

// expectEntity: the Keys and Data objects of an entity, with their entity markers
// and the entity-key annotations of every key.
func expectEntity(out map[string]*schema_j5pb.RootSchema, pkg string, e *Entity) {
	name := EntityCamel(e.Name)
	snake := Snake(LowerFirst(name))
	keys := &schema_j5pb.Object{Name: name + "Keys", Entity: &schema_j5pb.EntityObject{Entity: snake, Part: schema_j5pb.EntityPart_KEYS}}
	for i, k := range e.Keys {
		p := expectProp(out, pkg, name+"Keys", k.Field, int32(i+1))
		if k.isPrimary() {
			p.Required = true
		}
		if kf := p.Schema.GetKey(); kf != nil {
			ek := &schema_j5pb.EntityKey{}
			switch {
			case k.isPrimary():
				ek.Type = &schema_j5pb.EntityKey_PrimaryKey{PrimaryKey: true}
			case k.Foreign != "":
				parts := strings.Split(k.Foreign, ".")
				ek.Type = &schema_j5pb.EntityKey_ForeignKey{ForeignKey: &schema_j5pb.EntityRef{Package: strings.Join(parts[:len(parts)-1], "."), Entity: parts[len(parts)-1]}}
			}
			if k.Tenant != "" {
				ek.TenantKey = &k.Tenant
			}
			if ek.Type != nil || ek.TenantKey != nil || k.Primary != nil {
				kf.Entity = ek
			}
		}
		keys.Properties = append(keys.Properties, p)
	}
	out[pkg+"/"+name+"Keys"] = &schema_j5pb.RootSchema{Type: &schema_j5pb.RootSchema_Object{Object: keys}}
	data := &schema_j5pb.Object{Name: name + "Data", Entity: &schema_j5pb.EntityObject{Entity: snake, Part: schema_j5pb.EntityPart_DATA}}
	for i, f := range e.Data {
		data.Properties = append(data.Properties, expectProp(out, pkg, name+"Data", f, int32(i+1)))
	}
	out[pkg+"/"+name+"Data"] = &schema_j5pb.RootSchema{Type: &schema_j5pb.RootSchema_Object{Object: data}}
}

// attrString returns the value of a `path = "value"` body attribute.
func attrString(attrs []string, path string) *string {
	for _, a := range attrs {
		if strings.HasPrefix(a, path+" = \"") {
			v := strings.TrimSuffix(strings.TrimPrefix(a, path+" = \""), "\"")
			return &v
		}
	}
	return nil
}
