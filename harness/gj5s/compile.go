// Package gj5s (G-j5s) is the j5s program model of the compiler checks: a Go
// model of a j5s bundle with a renderer to source text, a reference compiler
// to the expected protobuf contract, and helpers that run the real pipeline in
// memory exactly as `j5 j5s genproto` does.
package gj5s

import (
	"context"
	"fmt"
	"io"
	stdlog "log"
	"sort"
	"strings"

	"github.com/bufbuild/protocompile/linker"
	"github.com/pentops/j5/internal/j5s/protobuild"
	"github.com/pentops/j5/internal/j5s/protoprint"
	"github.com/pentops/j5/internal/source"
	"github.com/pentops/log.go/log"
	"google.golang.org/protobuf/reflect/protoreflect"
	"google.golang.org/protobuf/types/descriptorpb"
)

// Bundle is an in-memory source bundle: file path -> content.
type Bundle struct {
	Files    map[string]string
	Packages []string // listing order as returned to the compiler
	// ListOrder optionally fixes the order ListSourceFiles returns (default sorted)
	ListOrder []string
	// Deps: external dependency files (path -> descriptor) offered to the compiler
	Deps map[string]*descriptorpb.FileDescriptorProto
	// ImageDeps: offer Deps through the tool's own DependencySet implementation
	ImageDeps bool
}

func NewBundle() *Bundle { return &Bundle{Files: map[string]string{}} }

func (b *Bundle) Add(path, content string) {
	b.Files[path] = content
	dir := path[:strings.LastIndex(path, "/")]
	pkg := strings.ReplaceAll(dir, "/", ".")
	for _, p := range b.Packages {
		if p == pkg {
			return
		}
	}
	b.Packages = append(b.Packages, pkg)
}

func (b *Bundle) GetLocalFile(_ context.Context, name string) ([]byte, error) {
	if c, ok := b.Files[name]; ok {
		return []byte(c), nil
	}
	return nil, fmt.Errorf("file not found: %s", name)
}

func (b *Bundle) ListPackages() []string { return b.Packages }

func (b *Bundle) ListSourceFiles(_ context.Context, prefix string) ([]string, error) {
	var out []string
	if b.ListOrder != nil {
		for _, k := range b.ListOrder {
			if strings.HasPrefix(k, prefix) {
				out = append(out, k)
			}
		}
		return out, nil
	}
	for k := range b.Files {
		if strings.HasPrefix(k, prefix) {
			out = append(out, k)
		}
	}
	sort.Strings(out)
	return out, nil
}

type noDeps struct{}

func (noDeps) ListDependencyFiles(string) []string { return nil }
func (noDeps) GetDependencyFile(name string) (*descriptorpb.FileDescriptorProto, error) {
	return nil, fmt.Errorf("no dependency file %s", name)
}

// Silence turns off the logging of the code under test.
func Silence() {
	log.DefaultLogger = log.NewCallbackLogger(func(string, string, map[string]interface{}) {})
	stdlog.SetOutput(io.Discard)
}

type mapDeps map[string]*descriptorpb.FileDescriptorProto

func (m mapDeps) ListDependencyFiles(root string) []string {
	var out []string
	for k := range m {
		if strings.HasPrefix(k, root+"/") && !strings.Contains(k[len(root)+1:], "/") {
			out = append(out, k)
		}
	}
	sort.Strings(out)
	return out
}

func (m mapDeps) GetDependencyFile(name string) (*descriptorpb.FileDescriptorProto, error) {
	if f, ok := m[name]; ok {
		return f, nil
	}
	return nil, fmt.Errorf("no dependency file %s", name)
}

func (b *Bundle) NewPackageSet() (*protobuild.PackageSet, error) {
	if b.Deps != nil && b.ImageDeps {
		return protobuild.NewPackageSet(source.ZZVerifImageFiles(b.Deps, nil), b)
	}
	if b.Deps != nil {
		return protobuild.NewPackageSet(mapDeps(b.Deps), b)
	}
	return protobuild.NewPackageSet(noDeps{}, b)
}

// Compile compiles one package on a fresh PackageSet.
func (b *Bundle) Compile(pkg string) (linker.Files, error) {
	ps, err := b.NewPackageSet()
	if err != nil {
		return nil, err
	}
	return ps.CompilePackage(context.Background(), pkg)
}

// Print prints one compiled file as proto text.
func Print(f linker.File) (string, error) {
	return protoprint.PrintFile(context.Background(), f, "")
}

// PrintFD prints any file descriptor as proto text.
func PrintFD(f protoreflect.FileDescriptor) (string, error) {
	return protoprint.PrintFile(context.Background(), f, "")
}
