package gj5s

import (
	"fmt"
	"strings"
)

// Entity is a j5s entity declaration.
type Entity struct {
	Name        string
	Desc        []string
	BaseURLPath string // "" = default
	Keys        []*EntityKey
	Data        []*Field
	Statuses    []EnumOpt
	Events      []*Event
	Summaries   []*Summary
	Commands    []*Service // name "" = default command service
	EventsInGet bool
	DefaultStatusFilter []string
	HasQueryBlock bool
	// Schemas: objects / enums / oneofs declared inside the entity block (emitted as
	// top-level types of the entity's file)
	Schemas []*Decl
}

type EntityKey struct {
	Field     *Field // Name + type (key:id62, key:uuid, key, string...)
	Primary   *bool  // nil = not spelled
	Tenant    string
	ShardKey  bool
	Foreign   string
}

type Event struct {
	Name   string
	Fields []*Field
}

type Summary struct {
	Name   string // "" = default
	Fields []*Field
}

func renderEntity(o *w, e *Entity) {
	o.p("entity %s {", e.Name)
	o.indent++
	renderDesc(o, e.Desc)
	if e.BaseURLPath != "" {
		o.p("baseUrlPath = %q", e.BaseURLPath)
	}
	for _, k := range e.Keys {
		f := *k.Field
		f.Keyword = "key"
		attrs := append([]string{}, f.Attrs...)
		if k.Primary != nil {
			attrs = append(attrs, fmt.Sprintf("primary = %v", *k.Primary))
		}
		if k.Tenant != "" {
			attrs = append(attrs, fmt.Sprintf("tenant = %q", k.Tenant))
		}
		if k.ShardKey {
			attrs = append(attrs, "shardKey = true")
		}
		if k.Foreign != "" {
			attrs = append(attrs, fmt.Sprintf("foreign = %q", k.Foreign))
		}
		f.Attrs = attrs
		renderField(o, &f, "key")
	}
	for _, d := range e.Data {
		renderField(o, d, "data")
	}
	for _, s := range e.Statuses {
		if s.Desc != "" {
			o.p("status %s | %s", s.Name, s.Desc)
		} else {
			o.p("status %s", s.Name)
		}
	}
	for _, ev := range e.Events {
		o.p("event %s {", ev.Name)
		o.indent++
		for _, f := range ev.Fields {
			renderField(o, f, "field")
		}
		o.indent--
		o.p("}")
	}
	for _, s := range e.Summaries {
		if s.Name != "" {
			o.p("summary %s {", s.Name)
		} else {
			o.p("summary {")
		}
		o.indent++
		for _, f := range s.Fields {
			renderField(o, f, "field")
		}
		o.indent--
		o.p("}")
	}
	for _, c := range e.Commands {
		if c.Name != "" {
			o.p("command %s {", c.Name)
		} else {
			o.p("command {")
		}
		o.indent++
		for _, a := range c.Attrs {
			o.p("%s", a)
		}
		for _, m := range c.Methods {
			renderMethod(o, m)
		}
		o.indent--
		o.p("}")
	}
	for _, d := range e.Schemas {
		renderDecl(o, d)
	}
	if e.HasQueryBlock {
		o.p("query {")
		o.indent++
		if e.EventsInGet {
			o.p("eventsInGet = true")
		}
		if len(e.DefaultStatusFilter) > 0 {
			q := make([]string, len(e.DefaultStatusFilter))
			for i, s := range e.DefaultStatusFilter {
				q[i] = fmt.Sprintf("%q", s)
			}
			o.p("defaultStatusFilter = [%s]", strings.Join(q, ", "))
		}
		o.indent--
		o.p("}")
	}
	o.indent--
	o.p("}")
}

// EntityExpectation is the part of the expansion beyond the plain contract
// (annotations checked by C17).
type EntityExpectation struct {
	EntityName string            // snake name carried by every part
	Parts      map[string]string // message full name -> KEYS / DATA / STATE / EVENT
	QueryService string
	CommandServices []string
	PublishTopic string
	UpsertTopics []string
	PrimaryKeys  []string // proto field names in declaration order
	RequiredKeys []string
	FlattenedKeysIn []string // messages where field "keys" is flattened
}

// EntityCamel: component names are derived from the CamelCase form of the
// entity name (foo_bar, fooBar and FooBar all give FooBar).
func EntityCamel(s string) string {
	out := ""
	for _, part := range strings.Split(s, "_") {
		out += UpperFirst(part)
	}
	return out
}

func (k *EntityKey) isPrimary() bool { return k.Primary != nil && *k.Primary }

func (rc *refCompiler) entity(f *File, e *Entity) {
	pkg := f.Package()
	file := f.Dir + "/" + f.Name + ".j5s.proto"
	name := EntityCamel(e.Name)
	snake := Snake(LowerFirst(name))
	msg := func(n string) string { return pkg + "." + name + n }

	var keyFields []*Field
	for _, k := range e.Keys {
		keyFields = append(keyFields, k.Field)
	}
	for _, d := range e.Schemas {
		d.File = f
		rc.decl(d, file)
	}
	rc.message(msg("Keys"), file, keyFields, nil, "", nil)
	rc.message(msg("Data"), file, e.Data, nil, "", nil)
	rc.c.Files[file].Imports["j5/state/v1/metadata.proto"] = true

	// status enum
	st := &CEnum{FullName: msg("Status"), File: file}
	prefix := Screaming(name) + "_STATUS_"
	st.Values = append(st.Values, CEnumVal{prefix + "UNSPECIFIED", 0})
	for i, s := range e.Statuses {
		st.Values = append(st.Values, CEnumVal{prefix + s.Name, int32(i + 1)})
	}
	rc.c.Enums[st.FullName] = st

	rc.c.Msgs[msg("State")] = &CMsg{FullName: msg("State"), File: file, Fields: []CField{
		{Name: "metadata", JSON: "metadata", Num: 1, Type: "message", TypeName: "j5.state.v1.StateMetadata"},
		{Name: "keys", JSON: "keys", Num: 2, Type: "message", TypeName: msg("Keys")},
		{Name: "data", JSON: "data", Num: 3, Type: "message", TypeName: msg("Data")},
		{Name: "status", JSON: "status", Num: 4, Type: "enum", TypeName: msg("Status")},
	}}
	// event type oneof with one nested message per event
	et := &CMsg{FullName: msg("EventType"), File: file}
	for i, ev := range e.Events {
		full := msg("EventType") + "." + ev.Name
		rc.message(full, file, ev.Fields, nil, "", nil)
		et.Fields = append(et.Fields, CField{Name: Snake(LowerFirst(ev.Name)), JSON: LowerFirst(ev.Name), Num: int32(i + 1), Type: "message", TypeName: full, Oneof: "type"})
	}
	rc.c.Msgs[et.FullName] = et
	rc.c.Msgs[msg("Event")] = &CMsg{FullName: msg("Event"), File: file, Fields: []CField{
		{Name: "metadata", JSON: "metadata", Num: 1, Type: "message", TypeName: "j5.state.v1.EventMetadata"},
		{Name: "keys", JSON: "keys", Num: 2, Type: "message", TypeName: msg("Keys")},
		{Name: "event", JSON: "event", Num: 3, Type: "message", TypeName: msg("EventType")},
	}}

	// query service
	sfile := f.Dir + "/service/" + f.Name + ".p.j5s.proto"
	spkg := pkg + ".service"
	sf := rc.c.file(sfile, spkg)
	sf.Imports[file] = true
	base := e.BaseURLPath
	if base == "" {
		base = "/" + strings.ReplaceAll(pkg, ".", "/") + "/" + snake
	}
	var pk, shard []CField
	pkPath, shardPath := "", ""
	n := int32(1)
	for _, k := range e.Keys {
		// primary keys and shard keys (primary or not) address one entity; shard keys also scope the list
		if k.isPrimary() || k.ShardKey {
			cf := rc.field(k.Field, spkg+"."+name+"GetRequest", sfile, nil)
			cf.Num = n
			n++
			pk = append(pk, cf)
			pkPath += "/{" + cf.Name + "}"
			if k.ShardKey {
				sf := cf
				sf.Num = int32(len(shard) + 1)
				shard = append(shard, sf)
				shardPath += "/{" + cf.Name + "}"
			}
		}
	}
	smsg := func(n string) string { return spkg + "." + name + n }
	stateField := CField{Name: snake, JSON: LowerFirst(name), Num: 1, Type: "message", TypeName: msg("State")}
	getResp := []CField{stateField}
	if e.EventsInGet {
		getResp = append(getResp, CField{Name: "events", JSON: "events", Num: 2, Type: "message", TypeName: msg("Event"), Repeated: true})
	}
	rc.c.Msgs[smsg("GetRequest")] = &CMsg{FullName: smsg("GetRequest"), File: sfile, Fields: pk}
	rc.c.Msgs[smsg("GetResponse")] = &CMsg{FullName: smsg("GetResponse"), File: sfile, Fields: getResp}
	page := CField{Name: "page", JSON: "page", Type: "message", TypeName: "j5.list.v1.PageRequest"}
	query := CField{Name: "query", JSON: "query", Type: "message", TypeName: "j5.list.v1.QueryRequest"}
	pageResp := CField{Name: "page", JSON: "page", Num: 2, Type: "message", TypeName: "j5.list.v1.PageResponse"}
	num := func(f CField, n int32) CField { f.Num = n; return f }
	listReq := append([]CField{}, shard...)
	listReq = append(listReq, num(page, int32(len(shard)+1)), num(query, int32(len(shard)+2)))
	rc.c.Msgs[smsg("ListRequest")] = &CMsg{FullName: smsg("ListRequest"), File: sfile, Fields: listReq}
	listState := stateField
	listState.Repeated = true
	rc.c.Msgs[smsg("ListResponse")] = &CMsg{FullName: smsg("ListResponse"), File: sfile, Fields: []CField{listState, pageResp}}
	evReq := append([]CField{}, pk...)
	evReq = append(evReq, num(page, int32(len(pk)+1)), num(query, int32(len(pk)+2)))
	rc.c.Msgs[smsg("EventsRequest")] = &CMsg{FullName: smsg("EventsRequest"), File: sfile, Fields: evReq}
	rc.c.Msgs[smsg("EventsResponse")] = &CMsg{FullName: smsg("EventsResponse"), File: sfile, Fields: []CField{
		{Name: "events", JSON: "events", Num: 1, Type: "message", TypeName: msg("Event"), Repeated: true}, pageResp}}
	rc.c.Svcs[spkg+"."+name+"QueryService"] = &CSvc{FullName: spkg + "." + name + "QueryService", File: sfile, Methods: []CMethod{
		{Name: name + "Get", In: smsg("GetRequest"), Out: smsg("GetResponse"), Verb: "get", Path: base + "/q" + pkPath},
		{Name: name + "List", In: smsg("ListRequest"), Out: smsg("ListResponse"), Verb: "get", Path: base + "/q" + shardPath},
		{Name: name + "Events", In: smsg("EventsRequest"), Out: smsg("EventsResponse"), Verb: "get", Path: base + "/q" + pkPath + "/events"},
	}}
	for _, c := range e.Commands {
		sn := name + "CommandService"
		if c.Name != "" {
			sn = UpperFirst(c.Name) + "CommandService"
		}
		svc := &CSvc{FullName: spkg + "." + sn, File: sfile}
		for _, m := range c.Methods {
			in := spkg + "." + m.Name + "Request"
			rc.message(in, sfile, m.Request, nil, "", nil)
			out := "google.api.HttpBody"
			if m.HasResponse {
				out = spkg + "." + m.Name + "Response"
				rc.message(out, sfile, m.Response, nil, "", nil)
			}
			svc.Methods = append(svc.Methods, CMethod{Name: m.Name, In: in, Out: out, Verb: strings.ToLower(m.Verb), Path: httpPath(base+"/c", m.Path), Body: bodyOf(m.Verb)})
		}
		rc.c.Svcs[svc.FullName] = svc
	}

	// topics
	tfile := f.Dir + "/topic/" + f.Name + ".p.j5s.proto"
	tpkg := pkg + ".topic"
	tf := rc.c.file(tfile, tpkg)
	tf.Imports[file] = true
	tmsg := func(n string) string { return tpkg + "." + name + n }
	rc.c.Msgs[tmsg("EventMessage")] = &CMsg{FullName: tmsg("EventMessage"), File: tfile, Fields: []CField{
		{Name: "metadata", JSON: "metadata", Num: 1, Type: "message", TypeName: "j5.state.v1.EventPublishMetadata"},
		{Name: "keys", JSON: "keys", Num: 2, Type: "message", TypeName: msg("Keys")},
		{Name: "event", JSON: "event", Num: 3, Type: "message", TypeName: msg("EventType")},
		{Name: "data", JSON: "data", Num: 4, Type: "message", TypeName: msg("Data")},
		{Name: "status", JSON: "status", Num: 5, Type: "enum", TypeName: msg("Status")},
	}}
	rc.c.Svcs[tpkg+"."+name+"PublishTopic"] = &CSvc{FullName: tpkg + "." + name + "PublishTopic", File: tfile, Role: "event", TopicName: snake + "_publish",
		Methods: []CMethod{{Name: name + "Event", In: tmsg("EventMessage"), Out: "google.protobuf.Empty"}}}
	for _, s := range e.Summaries {
		sn := "Summary"
		if s.Name != "" {
			sn = s.Name
		}
		in := tmsg(sn + "Message")
		rc.message(in, tfile, s.Fields, []CField{upsertMeta}, "", nil)
		rc.c.Svcs[tpkg+"."+name+sn+"Topic"] = &CSvc{FullName: tpkg + "." + name + sn + "Topic", File: tfile, Role: "upsert", TopicName: snake + "_" + Snake(LowerFirst(sn)),
			Methods: []CMethod{{Name: name + sn, In: in, Out: "google.protobuf.Empty"}}}
	}
}

// EntityCases: each dimension varied around a default entity (quick), and
// the small dimensions crossed in full (thorough).
func EntityCases(thorough bool) []*Case {
	var out []*Case
	type dims struct {
		name      int
		keys      int
		data      int
		statuses  int
		events    int
		summaries int
		commands  int
		query     int
	}
	names := []string{"Foo", "FooBar", "Thing", "fooBar", "foo_bar", "FooB"}
	keySets := func(i int, name string) []*EntityKey {
		id := LowerFirst(name) + "Id"
		switch i {
		case 0:
			return []*EntityKey{{Field: fld(id, T(TKeyID62)), Primary: tr(true)}}
		case 1:
			return []*EntityKey{{Field: fld(id, T(TKeyUUID)), Primary: tr(true)}, {Field: fld("tenantId", T(TKeyID62)), Tenant: "account"}}
		case 2:
			return []*EntityKey{{Field: fld("zebraId", T(TKeyID62)), Primary: tr(true)}, {Field: fld("alphaId", T(TKeyUUID)), Primary: tr(true)}, {Field: fld("note", T(TKey))}}
		case 3:
			return []*EntityKey{{Field: fld("otherId", T(TKeyID62)), Primary: tr(false)}, {Field: fld(id, T(TKeyID62)), Primary: tr(true)}}
		case 4:
			return []*EntityKey{{Field: fld(id, T(TKeyID62)), Primary: tr(true)}, {Field: fld("parentId", T(TKeyID62)), Foreign: "other.v1.Parent"}}
		case 5: // one key carrying several markers
			return []*EntityKey{{Field: fld(id, T(TKeyID62)), Primary: tr(true), Tenant: "account"}, {Field: fld("parentId", T(TKeyID62)), Foreign: "other.v1.Parent", Tenant: "org"}}
		case 6: // shard key that is not primary, declared after the primary key
			return []*EntityKey{{Field: fld(id, T(TKeyID62)), Primary: tr(true)}, {Field: fld("tenantId", T(TKeyID62)), ShardKey: true, Tenant: "account"}}
		case 8: // key names that extend the names of the generated request fields (page, query)
			return []*EntityKey{{Field: fld("pageId", T(TKeyID62)), Primary: tr(true)}, {Field: fld("queryIdent", T(TKeyID62)), Primary: tr(true)}}
		case 7: // shard key first, and a primary key that is also a shard key
			return []*EntityKey{{Field: fld("regionId", T(TKeyID62)), ShardKey: true}, {Field: fld(id, T(TKeyID62)), Primary: tr(true), ShardKey: true}}
		}
		return nil
	}
	dataSets := [][]*Field{{}, {fld("name", T(TString))}, {fld("name", T(TString)), fld("count", T(TInt32)), fld("tags", ArrayOf(T(TString)))}}
	statusSets := [][]EnumOpt{{{Name: "ACTIVE"}}, {{Name: "ACTIVE"}, {Name: "INACTIVE", Desc: "not active"}}, {{Name: "ACTIVE"}, {Name: "REVIEW_UNSPECIFIED"}, {Name: "CLOSED"}}, {{Name: "ACTIVE"}, {Name: "ON_HOLD"}, {Name: "PHASE2"}}}
	eventSets := [][]*Event{{}, {{Name: "Create", Fields: []*Field{fld("name", T(TString))}}}, {{Name: "Create", Fields: []*Field{fld("name", T(TString)), fld("count", T(TInt32))}}, {Name: "Archive"}, {Name: "ReOpen", Fields: []*Field{fld("why", T(TString))}}}}
	summarySets := [][]*Summary{{}, {{Fields: []*Field{fld("name", T(TString))}}}, {{Fields: []*Field{fld("name", T(TString))}}, {Name: "Lite", Fields: []*Field{fld("x", T(TString))}}, {Name: "Wide", Fields: nil}}}
	mkCommands := func(i int, name string) []*Service {
		id := LowerFirst(name) + "Id"
		do := &Method{Name: "DoIt", Verb: "POST", Path: "/:" + id + "/doit", Request: []*Field{fld(id, T(TKeyID62))}, HasResponse: true}
		switch i {
		case 1:
			return []*Service{{Methods: []*Method{do}}}
		case 2:
			return []*Service{{Methods: []*Method{do, {Name: "Other", Verb: "PUT", Path: "/other", Request: []*Field{fld("v", T(TString))}}}}, {Name: "Admin", Methods: []*Method{{Name: "Purge", Verb: "DELETE", Path: "/purge", HasResponse: true}}}}
		case 3: // command blocks that declare service options of their own
			return []*Service{{Attrs: []string{`options.audience = ["public"]`}, Methods: []*Method{do}}, {Name: "Admin", Attrs: []string{`options.audience = ["internal", "ops"]`}, Methods: []*Method{{Name: "Purge", Verb: "DELETE", Path: "/purge", HasResponse: true}}}}
		}
		return nil
	}
	build := func(d dims) *Case {
		name := names[d.name]
		e := &Entity{Name: name, Keys: keySets(d.keys, EntityCamel(name)), Data: dataSets[d.data], Statuses: statusSets[d.statuses], Events: eventSets[d.events], Summaries: summarySets[d.summaries], Commands: mkCommands(d.commands, EntityCamel(name))}
		switch d.query {
		case 1:
			e.HasQueryBlock, e.EventsInGet = true, true
		case 2:
			e.HasQueryBlock, e.DefaultStatusFilter = true, []string{"ACTIVE"}
		case 3:
			e.HasQueryBlock, e.EventsInGet, e.DefaultStatusFilter = true, true, []string{"ACTIVE"}
		case 4: // a filter on a later status whose name ends like an earlier one (ACTIVE / INACTIVE)
			e.HasQueryBlock = true
			if len(e.Statuses) > 1 {
				e.DefaultStatusFilter = []string{e.Statuses[len(e.Statuses)-1].Name}
			} else {
				e.DefaultStatusFilter = []string{e.Statuses[0].Name}
			}
		case 5: // every status, in reverse declaration order
			e.HasQueryBlock = true
			for i := len(e.Statuses) - 1; i >= 0; i-- {
				e.DefaultStatusFilter = append(e.DefaultStatusFilter, e.Statuses[i].Name)
			}
		}
		f := file("t/v1", "a")
		f.Add(e)
		return &Case{ID: fmt.Sprintf("entity:%d.%d.%d.%d.%d.%d.%d.%d", d.name, d.keys, d.data, d.statuses, d.events, d.summaries, d.commands, d.query), Family: "entities",
			Coord: "entities", P: &Program{Files: []*File{f}}}
	}
	def := dims{0, 0, 1, 1, 1, 0, 0, 0}
	seen := map[string]bool{}
	add := func(d dims) {
		c := build(d)
		if !seen[c.ID] {
			seen[c.ID] = true
			out = append(out, c)
		}
	}
	lim := []int{6, 9, 3, 4, 3, 3, 4, 6}
	get := func(d *dims, i int) *int {
		return []*int{&d.name, &d.keys, &d.data, &d.statuses, &d.events, &d.summaries, &d.commands, &d.query}[i]
	}
	add(def)
	// every single deviation and every pair of deviations from the default
	for i := 0; i < 8; i++ {
		for vi := 0; vi < lim[i]; vi++ {
			d := def
			*get(&d, i) = vi
			add(d)
			for j := i + 1; j < 8; j++ {
				for vj := 0; vj < lim[j]; vj++ {
					d2 := d
					*get(&d2, j) = vj
					add(d2)
				}
			}
		}
	}
	// types declared inside the entity block and used by its data, events and commands
	for _, order := range []string{"schemas-last", "one-of-each"} {
		f := file("t/v1", "a")
		addr := obj("Address", fld("line", T(TString)))
		kind := enumD("Kind", "ONE", "TWO")
		pick := oneofD("Pick", fld("a", InlineOf(obj("", fld("x", T(TString))))))
		addr.File, kind.File, pick.File = f, f, f
		e := basicEntity("Foo", []*Field{fld("name", T(TString)), fld("address", RefTo(addr, "")), fld("kind", RefTo(kind, ""))}, []*Field{fld("address", RefTo(addr, "")), fld("pick", RefTo(pick, ""))})
		e.Schemas = []*Decl{addr, kind, pick}
		if order == "one-of-each" {
			e.Schemas = []*Decl{addr}
			e.Data = []*Field{fld("address", RefTo(addr, ""))}
			e.Events = []*Event{{Name: "Create", Fields: []*Field{fld("address", RefTo(addr, ""))}}}
		}
		f.Add(e)
		out = append(out, &Case{ID: "entity:nested-schemas:" + order, Family: "entities", Coord: "entities", P: &Program{Files: []*File{f}}})
	}
	if thorough {
		for a := 0; a < 6; a++ {
			for b := 0; b < 9; b++ {
				for c := 0; c < 3; c++ {
					for e := 0; e < 3; e++ {
						for s := 0; s < 4; s++ {
							for q := 0; q < 6; q++ {
								add(dims{a, b, 1, 1, c, e, s, q})
							}
						}
					}
				}
			}
		}
	}
	return out
}
