package gj5s

import (
	"fmt"
	"sort"
	"strings"

	"google.golang.org/genproto/googleapis/api/annotations"
	"google.golang.org/protobuf/proto"
	"google.golang.org/protobuf/reflect/protoreflect"

	"github.com/pentops/j5/gen/j5/messaging/v1/messaging_j5pb"
)

// Contract is the protobuf contract of a bundle: what C02 compares.
type Contract struct {
	Files map[string]*CFile
	Msgs  map[string]*CMsg
	Enums map[string]*CEnum
	Svcs  map[string]*CSvc
}

type CFile struct {
	Path    string
	Package string
	Imports map[string]bool // user files and well-known type files only
}

type CField struct {
	Name     string
	JSON     string
	Num      int32
	Type     string // string, int32, ..., message, enum
	TypeName string // full name for message / enum
	Repeated bool
	Optional bool   // proto3 optional
	Oneof    string // name of the containing real oneof
	IsMap    bool
	ValueType     string
	ValueTypeName string
}

type CMsg struct {
	FullName string
	File     string
	Fields   []CField
}

type CEnumVal struct {
	Name string
	Num  int32
}

type CEnum struct {
	FullName string
	File     string
	Values   []CEnumVal
}

type CMethod struct {
	Name, In, Out string
	Verb, Path    string
	Body          string // google.api.http body: "*" for every verb but GET
}

func bodyOf(verb string) string {
	if strings.EqualFold(verb, "get") {
		return ""
	}
	return "*"
}

type CSvc struct {
	FullName  string
	File      string
	Methods   []CMethod
	Role      string // "", publish, request, reply, upsert, event
	TopicName string
}

func NewContract() *Contract {
	return &Contract{Files: map[string]*CFile{}, Msgs: map[string]*CMsg{}, Enums: map[string]*CEnum{}, Svcs: map[string]*CSvc{}}
}

func (c *Contract) file(path, pkg string) *CFile {
	f := c.Files[path]
	if f == nil {
		f = &CFile{Path: path, Package: pkg, Imports: map[string]bool{}}
		c.Files[path] = f
	}
	return f
}

// ---------- reference compiler ----------

var wktFiles = map[TKind][2]string{
	TDate:      {"j5.types.date.v1.Date", "j5/types/date/v1/date.proto"},
	TDecimal:   {"j5.types.decimal.v1.Decimal", "j5/types/decimal/v1/decimal.proto"},
	TTimestamp: {"google.protobuf.Timestamp", "google/protobuf/timestamp.proto"},
	TAny:       {"j5.types.any.v1.Any", "j5/types/any/v1/any.proto"},
}

var scalarProto = map[TKind]string{
	TString: "string", TBool: "bool", TInt32: "int32", TInt64: "int64", TUint32: "uint32", TUint64: "uint64",
	TFloat32: "float", TFloat64: "double", TBytes: "bytes", TKey: "string", TKeyID62: "string", TKeyUUID: "string",
}

// FullName of a declaration in the compiled output.
func (d *Decl) FullName() string {
	if d.Parent != nil {
		return d.Parent.FullName() + "." + d.Name
	}
	if d.File == nil {
		panic("declaration " + d.Name + " is not attached to a file")
	}
	return d.File.Package() + "." + d.Name
}

func (d *Decl) outFile() string {
	x := d
	for x.Parent != nil {
		x = x.Parent
	}
	return x.File.OutPath()
}

type refCompiler struct {
	c *Contract
}

// Expected is the reference compiler: the contract the source declares.
func (p *Program) Expected() *Contract {
	rc := &refCompiler{c: NewContract()}
	for _, f := range p.Files {
		if f.IsDep {
			continue // not compiled: only a target of references
		}
		schemaFile := f.OutPath()
		rc.c.file(schemaFile, f.Package())
		if f.IsProto {
			for _, im := range f.ProtoImports {
				rc.c.Files[schemaFile].Imports[im] = true
			}
		}
		for _, d := range f.Decls {
			switch d := d.(type) {
			case *Decl:
				rc.decl(d, schemaFile)
			case *Service:
				rc.service(f, d)
			case *Topic:
				rc.topic(f, d)
			case *Entity:
				rc.entity(f, d)
			}
		}
	}
	return rc.c
}

func (rc *refCompiler) decl(d *Decl, file string) {
	switch d.Kind {
	case DEnum:
		rc.enum(d, file)
	case DObject:
		rc.message(d.FullName(), file, d.Fields, nil, "", d)
	case DOneof:
		rc.message(d.FullName(), file, d.Fields, nil, "type", d)
	}
}

func (rc *refCompiler) enum(d *Decl, file string) {
	prefix := d.Prefix
	if prefix == "" {
		prefix = Screaming(d.Name) + "_"
	}
	e := &CEnum{FullName: d.FullName(), File: file}
	opts := d.Options
	if len(opts) > 0 && strings.HasSuffix(opts[0].Name, "UNSPECIFIED") && !d.ExplicitUnspecified {
		// a first option ending in UNSPECIFIED is the zero value, spelled by the author
		e.Values = append(e.Values, CEnumVal{prefix + strings.TrimPrefix(opts[0].Name, prefix), 0})
		opts = opts[1:]
	} else {
		e.Values = append(e.Values, CEnumVal{prefix + "UNSPECIFIED", 0})
	}
	for i, o := range opts {
		e.Values = append(e.Values, CEnumVal{prefix + o.Name, o.Num(i)})
	}
	rc.c.Enums[e.FullName] = e
}

// message emits a message with optional implicit leading fields.
func (rc *refCompiler) message(fullName, file string, fields []*Field, leading []CField, oneof string, owner *Decl) {
	m := &CMsg{FullName: fullName, File: file}
	m.Fields = append(m.Fields, leading...)
	for i, f := range fields {
		cf := rc.field(f, fullName, file, owner)
		cf.Num = int32(len(leading) + i + 1)
		cf.Oneof = oneof
		m.Fields = append(m.Fields, cf)
	}
	rc.c.Msgs[fullName] = m
}

func (rc *refCompiler) field(f *Field, parentFull, file string, owner *Decl) CField {
	cf := CField{Name: Snake(f.Name), JSON: f.Name, Optional: f.Optional}
	t := f.T
	if t.K == TArray {
		cf.Repeated = true
		t = t.Elem
	}
	if f.T.K == TMap {
		cf.IsMap = true
		cf.Repeated = true
		t = f.T.Elem
		cf.Type = "message"
		vt, vtn := rc.leaf(t, f, parentFull, file, owner)
		cf.ValueType, cf.ValueTypeName = vt, vtn
		return cf
	}
	cf.Type, cf.TypeName = rc.leaf(t, f, parentFull, file, owner)
	return cf
}

func (rc *refCompiler) leaf(t *Type, f *Field, parentFull, file string, owner *Decl) (string, string) {
	if s, ok := scalarProto[t.K]; ok {
		return s, ""
	}
	if w, ok := wktFiles[t.K]; ok {
		rc.c.Files[file].Imports[w[1]] = true
		return "message", w[0]
	}
	kind := "message"
	if t.K == TEnum {
		kind = "enum"
	}
	if t.Ref != nil {
		target := t.Ref.To
		if tf := target.outFile(); tf != file {
			rc.c.Files[file].Imports[tf] = true
		}
		return kind, target.FullName()
	}
	// inline: nested inside the parent under the field's name (or the override)
	inl := t.Inline
	name := UpperFirst(f.Name)
	if t.NameOverride != "" {
		name = t.NameOverride
	}
	inl.Name = name
	inl.Parent = owner
	full := parentFull + "." + name
	if owner == nil {
		// virtual parent (request / response / topic message): nested under its full name
		inl.Parent = nil
	}
	switch inl.Kind {
	case DEnum:
		prefix := inl.Prefix
		if prefix == "" {
			prefix = Screaming(name) + "_"
		}
		e := &CEnum{FullName: full, File: file}
		opts := inl.Options
		if len(opts) > 0 && strings.HasSuffix(opts[0].Name, "UNSPECIFIED") && !inl.ExplicitUnspecified {
			e.Values = append(e.Values, CEnumVal{prefix + strings.TrimPrefix(opts[0].Name, prefix), 0})
			opts = opts[1:]
		} else {
			e.Values = append(e.Values, CEnumVal{prefix + "UNSPECIFIED", 0})
		}
		for i, o := range opts {
			e.Values = append(e.Values, CEnumVal{prefix + o.Name, int32(i + 1)})
		}
		rc.c.Enums[full] = e
	case DObject:
		rc.nestedMessage(full, file, inl, "")
	case DOneof:
		rc.nestedMessage(full, file, inl, "type")
	}
	return kind, full
}

func (rc *refCompiler) nestedMessage(full, file string, d *Decl, oneof string) {
	m := &CMsg{FullName: full, File: file}
	for i, f := range d.Fields {
		cf := rc.fieldIn(f, full, file)
		cf.Num = int32(i + 1)
		cf.Oneof = oneof
		m.Fields = append(m.Fields, cf)
	}
	rc.c.Msgs[full] = m
}

// fieldIn compiles a field whose parent is identified by full name only.
func (rc *refCompiler) fieldIn(f *Field, parentFull, file string) CField {
	return rc.field(f, parentFull, file, nil)
}

func httpPath(base, p string) string {
	full := base + p
	parts := strings.Split(full, "/")
	for i, s := range parts {
		if strings.HasPrefix(s, ":") {
			parts[i] = "{" + Snake(s[1:]) + "}"
		}
	}
	return strings.Join(parts, "/")
}

func (rc *refCompiler) service(f *File, s *Service) {
	file := f.Dir + "/service/" + f.Name + ".p.j5s.proto"
	pkg := f.Package() + ".service"
	rc.c.file(file, pkg)
	svc := &CSvc{FullName: pkg + "." + s.Name + "Service", File: file}
	for _, m := range s.Methods {
		in := pkg + "." + m.Name + "Request"
		rc.message(in, file, m.Request, nil, "", nil)
		out := "google.api.HttpBody"
		if m.HasResponse {
			out = pkg + "." + m.Name + "Response"
			rc.message(out, file, m.Response, nil, "", nil)
		}
		svc.Methods = append(svc.Methods, CMethod{Name: m.Name, In: in, Out: out, Verb: strings.ToLower(m.Verb), Path: httpPath(s.BasePath, m.Path), Body: bodyOf(m.Verb)})
	}
	rc.c.Svcs[svc.FullName] = svc
}

var reqMeta = CField{Name: "request", JSON: "request", Num: 1, Type: "message", TypeName: "j5.messaging.v1.RequestMetadata"}
var upsertMeta = CField{Name: "upsert", JSON: "upsert", Num: 1, Type: "message", TypeName: "j5.messaging.v1.UpsertMetadata"}

func (rc *refCompiler) topic(f *File, t *Topic) {
	file := f.Dir + "/topic/" + f.Name + ".p.j5s.proto"
	pkg := f.Package() + ".topic"
	rc.c.file(file, pkg)
	empty := "google.protobuf.Empty"
	switch t.Kind {
	case "publish":
		svc := &CSvc{FullName: pkg + "." + t.Name + "Topic", File: file, Role: "publish", TopicName: Snake(LowerFirst(t.Name))}
		for _, m := range t.Messages {
			in := pkg + "." + m.Name + "Message"
			rc.message(in, file, m.Fields, nil, "", nil)
			svc.Methods = append(svc.Methods, CMethod{Name: m.Name, In: in, Out: empty})
		}
		rc.c.Svcs[svc.FullName] = svc
	case "upsert":
		svc := &CSvc{FullName: pkg + "." + t.Name + "Topic", File: file, Role: "upsert", TopicName: Snake(LowerFirst(t.Name))}
		for _, m := range t.Messages {
			in := pkg + "." + m.Name + "Message"
			rc.message(in, file, m.Fields, []CField{upsertMeta}, "", nil)
			svc.Methods = append(svc.Methods, CMethod{Name: m.Name, In: in, Out: empty})
		}
		rc.c.Svcs[svc.FullName] = svc
	case "reqres":
		req := &CSvc{FullName: pkg + "." + t.Name + "RequestTopic", File: file, Role: "request", TopicName: Snake(LowerFirst(t.Name))}
		in := pkg + "." + t.Name + "RequestMessage"
		rc.message(in, file, t.Request, []CField{reqMeta}, "", nil)
		req.Methods = []CMethod{{Name: t.Name + "Request", In: in, Out: empty}}
		rc.c.Svcs[req.FullName] = req
		rep := &CSvc{FullName: pkg + "." + t.Name + "ReplyTopic", File: file, Role: "reply", TopicName: Snake(LowerFirst(t.Name))}
		in2 := pkg + "." + t.Name + "ReplyMessage"
		rc.message(in2, file, t.Reply, []CField{reqMeta}, "", nil)
		rep.Methods = []CMethod{{Name: t.Name + "Reply", In: in2, Out: empty}}
		rc.c.Svcs[rep.FullName] = rep
	}
}

// ---------- extraction from compiled descriptors ----------

var kindNames = map[protoreflect.Kind]string{
	protoreflect.StringKind: "string", protoreflect.BoolKind: "bool", protoreflect.Int32Kind: "int32", protoreflect.Int64Kind: "int64",
	protoreflect.Uint32Kind: "uint32", protoreflect.Uint64Kind: "uint64", protoreflect.FloatKind: "float", protoreflect.DoubleKind: "double",
	protoreflect.BytesKind: "bytes", protoreflect.MessageKind: "message", protoreflect.EnumKind: "enum",
	protoreflect.Sint32Kind: "sint32", protoreflect.Sint64Kind: "sint64", protoreflect.Fixed32Kind: "fixed32", protoreflect.Fixed64Kind: "fixed64",
	protoreflect.Sfixed32Kind: "sfixed32", protoreflect.Sfixed64Kind: "sfixed64", protoreflect.GroupKind: "group",
}

func isBuiltinImport(path string) bool {
	for _, p := range []string{"buf/validate/", "j5/ext/", "j5/list/v1/annotations", "j5/messaging/v1/annotations", "google/api/annotations", "google/api/http"} {
		if strings.HasPrefix(path, p) {
			return true
		}
	}
	return false
}

// Extract reads the contract out of compiled files.
func Extract(files []protoreflect.FileDescriptor) *Contract {
	c := NewContract()
	for _, fd := range files {
		cf := c.file(fd.Path(), string(fd.Package()))
		imps := fd.Imports()
		for i := 0; i < imps.Len(); i++ {
			p := imps.Get(i).Path()
			if !isBuiltinImport(p) {
				cf.Imports[p] = true
			}
		}
		var msgs func(mds protoreflect.MessageDescriptors)
		var enums func(eds protoreflect.EnumDescriptors)
		enums = func(eds protoreflect.EnumDescriptors) {
			for i := 0; i < eds.Len(); i++ {
				ed := eds.Get(i)
				e := &CEnum{FullName: string(ed.FullName()), File: fd.Path()}
				for j := 0; j < ed.Values().Len(); j++ {
					v := ed.Values().Get(j)
					e.Values = append(e.Values, CEnumVal{string(v.Name()), int32(v.Number())})
				}
				c.Enums[e.FullName] = e
			}
		}
		msgs = func(mds protoreflect.MessageDescriptors) {
			for i := 0; i < mds.Len(); i++ {
				md := mds.Get(i)
				if md.IsMapEntry() {
					continue
				}
				m := &CMsg{FullName: string(md.FullName()), File: fd.Path()}
				for j := 0; j < md.Fields().Len(); j++ {
					f := md.Fields().Get(j)
					cf := CField{Name: string(f.Name()), JSON: f.JSONName(), Num: int32(f.Number()), Type: kindNames[f.Kind()],
						Repeated: f.Cardinality() == protoreflect.Repeated, Optional: f.HasOptionalKeyword() && f.HasPresence()} // optional = the keyword *and* the presence it stands for
					if oo := f.ContainingOneof(); oo != nil && !oo.IsSynthetic() {
						cf.Oneof = string(oo.Name())
					}
					switch {
					case f.IsMap():
						cf.IsMap = true
						v := f.MapValue()
						cf.ValueType = kindNames[v.Kind()]
						if v.Message() != nil {
							cf.ValueTypeName = string(v.Message().FullName())
						}
						if v.Enum() != nil {
							cf.ValueTypeName = string(v.Enum().FullName())
						}
					case f.Message() != nil:
						cf.TypeName = string(f.Message().FullName())
					case f.Enum() != nil:
						cf.TypeName = string(f.Enum().FullName())
					}
					m.Fields = append(m.Fields, cf)
				}
				sort.Slice(m.Fields, func(a, b int) bool { return m.Fields[a].Num < m.Fields[b].Num })
				c.Msgs[m.FullName] = m
				msgs(md.Messages())
				enums(md.Enums())
			}
		}
		msgs(fd.Messages())
		enums(fd.Enums())
		for i := 0; i < fd.Services().Len(); i++ {
			sd := fd.Services().Get(i)
			s := &CSvc{FullName: string(sd.FullName()), File: fd.Path()}
			if cfg := messagingConfig(sd); cfg != nil {
				s.TopicName = cfg.GetTopicName()
				switch cfg.Role.(type) {
				case *messaging_j5pb.ServiceConfig_Publish_:
					s.Role = "publish"
				case *messaging_j5pb.ServiceConfig_Request_:
					s.Role = "request"
				case *messaging_j5pb.ServiceConfig_Reply_:
					s.Role = "reply"
				case *messaging_j5pb.ServiceConfig_Upsert_:
					s.Role = "upsert"
				case *messaging_j5pb.ServiceConfig_Event_:
					s.Role = "event"
				default:
					s.Role = fmt.Sprintf("%T", cfg.Role)
				}
			}
			for j := 0; j < sd.Methods().Len(); j++ {
				md := sd.Methods().Get(j)
				cm := CMethod{Name: string(md.Name()), In: string(md.Input().FullName()), Out: string(md.Output().FullName())}
				if rule := httpRule(md); rule != nil {
					switch p := rule.Pattern.(type) {
					case *annotations.HttpRule_Get:
						cm.Verb, cm.Path = "get", p.Get
					case *annotations.HttpRule_Post:
						cm.Verb, cm.Path = "post", p.Post
					case *annotations.HttpRule_Put:
						cm.Verb, cm.Path = "put", p.Put
					case *annotations.HttpRule_Delete:
						cm.Verb, cm.Path = "delete", p.Delete
					case *annotations.HttpRule_Patch:
						cm.Verb, cm.Path = "patch", p.Patch
					}
					cm.Body = rule.Body
				}
				s.Methods = append(s.Methods, cm)
			}
			c.Svcs[s.FullName] = s
		}
	}
	return c
}

// options may arrive as dynamic messages (compiled from text): re-marshal into the Go types.
func messagingConfig(sd protoreflect.ServiceDescriptor) *messaging_j5pb.ServiceConfig {
	out := &messaging_j5pb.ServiceConfig{}
	if !ExtractExt(sd.Options(), messaging_j5pb.E_Service.TypeDescriptor(), out) {
		return nil
	}
	return out
}

func httpRule(md protoreflect.MethodDescriptor) *annotations.HttpRule {
	out := &annotations.HttpRule{}
	if !ExtractExt(md.Options(), annotations.E_Http.TypeDescriptor(), out) {
		return nil
	}
	return out
}

// ExtractExt copies the value of an extension (by field number) from an options
// message — typed, dynamic or still unknown bytes — into out.
func ExtractExt(opts proto.Message, xt protoreflect.ExtensionTypeDescriptor, out proto.Message) bool {
	if opts == nil || !opts.ProtoReflect().IsValid() {
		return false
	}
	found := false
	opts.ProtoReflect().Range(func(fd protoreflect.FieldDescriptor, v protoreflect.Value) bool {
		if fd.Number() == xt.Number() && fd.IsExtension() {
			b, err := proto.Marshal(v.Message().Interface())
			if err == nil && proto.Unmarshal(b, out) == nil {
				found = true
			}
			return false
		}
		return true
	})
	if found {
		return true
	}
	// unknown fields
	b, err := proto.Marshal(opts)
	if err != nil {
		return false
	}
	// parse the raw options as a message holding only the wanted extension
	tmp := opts.ProtoReflect().New().Interface()
	if err := (proto.UnmarshalOptions{Resolver: singleExt{xt}}).Unmarshal(b, tmp); err != nil {
		return false
	}
	tmp.ProtoReflect().Range(func(fd protoreflect.FieldDescriptor, v protoreflect.Value) bool {
		if fd.Number() == xt.Number() && fd.IsExtension() {
			bb, err := proto.Marshal(v.Message().Interface())
			if err == nil && proto.Unmarshal(bb, out) == nil {
				found = true
			}
			return false
		}
		return true
	})
	return found
}

type singleExt struct {
	xt protoreflect.ExtensionTypeDescriptor
}

func (s singleExt) FindExtensionByName(protoreflect.FullName) (protoreflect.ExtensionType, error) {
	return nil, fmt.Errorf("not found")
}
func (s singleExt) FindExtensionByNumber(m protoreflect.FullName, n protoreflect.FieldNumber) (protoreflect.ExtensionType, error) {
	if n == s.xt.Number() && m == s.xt.ContainingMessage().FullName() {
		return s.xt.Type(), nil
	}
	return nil, fmt.Errorf("not found")
}
func (s singleExt) FindMessageByName(protoreflect.FullName) (protoreflect.MessageType, error) {
	return nil, fmt.Errorf("not found")
}
func (s singleExt) FindMessageByURL(string) (protoreflect.MessageType, error) {
	return nil, fmt.Errorf("not found")
}

// ---------- diff ----------

// Diff lists the differences between the expected and the compiled contract
// as (clause, text) pairs; declaration order of messages / enums / imports is
// not part of the contract.
type DiffItem struct {
	Clause string
	Text   string
}

func Diff(want, got *Contract) []DiffItem {
	var out []DiffItem
	add := func(clause, format string, a ...any) { out = append(out, DiffItem{clause, fmt.Sprintf(format, a...)}) }
	for _, k := range sortedKeys(want.Files) {
		g := got.Files[k]
		if g == nil {
			add("missing-file", "file %s is not emitted (emitted: %v)", k, sortedKeys(got.Files))
			continue
		}
		w := want.Files[k]
		if w.Package != g.Package {
			add("file-package", "file %s: package %s expected, got %s", k, w.Package, g.Package)
		}
		for _, imp := range sortedKeys(w.Imports) {
			if !g.Imports[imp] {
				add("missing-import", "file %s does not import %s", k, imp)
			}
		}
		for _, imp := range sortedKeys(g.Imports) {
			if !w.Imports[imp] && !strings.HasPrefix(imp, "google/protobuf/") && !strings.HasPrefix(imp, "j5/") && !strings.HasPrefix(imp, "google/api/") {
				add("unexpected-import", "file %s imports %s, which the source does not reference", k, imp)
			}
		}
	}
	for _, k := range sortedKeys(got.Files) {
		if want.Files[k] == nil {
			add("unexpected-file", "unexpected file %s", k)
		}
	}
	for _, k := range sortedKeys(want.Msgs) {
		w, g := want.Msgs[k], got.Msgs[k]
		if g == nil {
			add("missing-message", "message %s is not emitted", k)
			continue
		}
		if w.File != g.File {
			add("message-file", "message %s expected in %s, found in %s", k, w.File, g.File)
		}
		if len(w.Fields) != len(g.Fields) {
			add("field-count", "message %s: %d fields expected, got %d (%v vs %v)", k, len(w.Fields), len(g.Fields), fieldNames(w.Fields), fieldNames(g.Fields))
			continue
		}
		for i := range w.Fields {
			wf, gf := w.Fields[i], g.Fields[i]
			if wf != gf {
				add("field|"+fieldDiffClause(wf, gf), "message %s field %d: expected %+v, got %+v", k, i+1, wf, gf)
			}
		}
	}
	for _, k := range sortedKeys(got.Msgs) {
		if want.Msgs[k] == nil {
			add("unexpected-message", "unexpected message %s", k)
		}
	}
	for _, k := range sortedKeys(want.Enums) {
		w, g := want.Enums[k], got.Enums[k]
		if g == nil {
			add("missing-enum", "enum %s is not emitted", k)
			continue
		}
		if fmt.Sprint(w.Values) != fmt.Sprint(g.Values) {
			add("enum-values", "enum %s: values %v expected, got %v", k, w.Values, g.Values)
		}
	}
	for _, k := range sortedKeys(got.Enums) {
		if want.Enums[k] == nil {
			add("unexpected-enum", "unexpected enum %s", k)
		}
	}
	for _, k := range sortedKeys(want.Svcs) {
		w, g := want.Svcs[k], got.Svcs[k]
		if g == nil {
			add("missing-service", "service %s is not emitted (emitted: %v)", k, sortedKeys(got.Svcs))
			continue
		}
		if w.File != g.File {
			add("service-file", "service %s expected in %s, found in %s", k, w.File, g.File)
		}
		if w.Role != g.Role || w.TopicName != g.TopicName {
			add("messaging-role", "service %s: role %q topic %q expected, got role %q topic %q", k, w.Role, w.TopicName, g.Role, g.TopicName)
		}
		if fmt.Sprint(w.Methods) != fmt.Sprint(g.Methods) {
			add("methods", "service %s: methods %+v expected, got %+v", k, w.Methods, g.Methods)
		}
	}
	for _, k := range sortedKeys(got.Svcs) {
		if want.Svcs[k] == nil {
			add("unexpected-service", "unexpected service %s", k)
		}
	}
	return out
}

func fieldDiffClause(w, g CField) string {
	switch {
	case w.Name != g.Name:
		return "name"
	case w.JSON != g.JSON:
		return "json-name"
	case w.Num != g.Num:
		return "number"
	case w.Type != g.Type || w.ValueType != g.ValueType:
		return "type"
	case w.TypeName != g.TypeName || w.ValueTypeName != g.ValueTypeName:
		return "type-name"
	case w.Repeated != g.Repeated || w.IsMap != g.IsMap:
		return "cardinality"
	case w.Optional != g.Optional:
		return "optionality"
	case w.Oneof != g.Oneof:
		return "oneof-membership"
	}
	return "other"
}

func fieldNames(fs []CField) []string {
	var out []string
	for _, f := range fs {
		out = append(out, f.Name)
	}
	return out
}

func sortedKeys[V any](m map[string]V) []string {
	var ks []string
	for k := range m {
		ks = append(ks, k)
	}
	sort.Strings(ks)
	return ks
}
