package gj5s

import (
	"context"
	"fmt"
	"io"
	"strings"

	"github.com/bufbuild/protocompile"
	"google.golang.org/protobuf/reflect/protoreflect"
	"google.golang.org/protobuf/reflect/protoregistry"
)

// Reparse parses and links printed proto text with bufbuild/protocompile; the
// imports that are not in texts resolve from the process-wide registry (the
// builtin files the compiler itself uses).
func Reparse(texts map[string]string) ([]protoreflect.FileDescriptor, error) {
	src := &protocompile.SourceResolver{Accessor: func(path string) (io.ReadCloser, error) {
		if t, ok := texts[path]; ok {
			return io.NopCloser(strings.NewReader(t)), nil
		}
		return nil, fmt.Errorf("no such file %s", path)
	}}
	global := protocompile.ResolverFunc(func(path string) (protocompile.SearchResult, error) {
		fd, err := protoregistry.GlobalFiles.FindFileByPath(path)
		if err != nil {
			return protocompile.SearchResult{}, err
		}
		return protocompile.SearchResult{Desc: fd}, nil
	})
	comp := protocompile.Compiler{Resolver: protocompile.CompositeResolver{src, global}, SourceInfoMode: protocompile.SourceInfoStandard}
	var names []string
	for _, k := range sortedKeys(texts) {
		names = append(names, k)
	}
	files, err := comp.Compile(context.Background(), names...)
	if err != nil {
		return nil, err
	}
	var out []protoreflect.FileDescriptor
	for _, f := range files {
		out = append(out, f)
	}
	return out, nil
}

// ReparseOne parses one file of a source tree (the others are available as imports).
func ReparseOne(texts map[string]string, name string) ([]protoreflect.FileDescriptor, error) {
	src := &protocompile.SourceResolver{Accessor: func(path string) (io.ReadCloser, error) {
		if t, ok := texts[path]; ok {
			return io.NopCloser(strings.NewReader(t)), nil
		}
		return nil, fmt.Errorf("no such file %s", path)
	}}
	global := protocompile.ResolverFunc(func(path string) (protocompile.SearchResult, error) {
		fd, err := protoregistry.GlobalFiles.FindFileByPath(path)
		if err != nil {
			return protocompile.SearchResult{}, err
		}
		return protocompile.SearchResult{Desc: fd}, nil
	})
	comp := protocompile.Compiler{Resolver: protocompile.CompositeResolver{global, src}, SourceInfoMode: protocompile.SourceInfoStandard}
	files, err := comp.Compile(context.Background(), name)
	if err != nil {
		return nil, err
	}
	return []protoreflect.FileDescriptor{files[0]}, nil
}

// ReparseNames parses the named files; the other texts are available as imports.
func ReparseNames(texts map[string]string, names []string) ([]protoreflect.FileDescriptor, error) {
	src := &protocompile.SourceResolver{Accessor: func(path string) (io.ReadCloser, error) {
		if t, ok := texts[path]; ok {
			return io.NopCloser(strings.NewReader(t)), nil
		}
		return nil, fmt.Errorf("no such file %s", path)
	}}
	global := protocompile.ResolverFunc(func(path string) (protocompile.SearchResult, error) {
		fd, err := protoregistry.GlobalFiles.FindFileByPath(path)
		if err != nil {
			return protocompile.SearchResult{}, err
		}
		return protocompile.SearchResult{Desc: fd}, nil
	})
	comp := protocompile.Compiler{Resolver: protocompile.CompositeResolver{src, global}, SourceInfoMode: protocompile.SourceInfoStandard}
	files, err := comp.Compile(context.Background(), names...)
	if err != nil {
		return nil, err
	}
	var out []protoreflect.FileDescriptor
	for _, f := range files {
		out = append(out, f)
	}
	return out, nil
}
