// C02: j5s compiles to exactly the protobuf contract the source declares.
package main

import (
	"context"
	"strings"
	"fmt"

	"github.com/pentops/j5/internal/zzverif/gj5s"
	"github.com/pentops/j5/internal/zzverif/vk"
	"google.golang.org/protobuf/reflect/protoreflect"
)

var ctx = context.Background()

func main() {
	gj5s.Silence()
	vk.Main(&vk.Check{
		ID:   "C02",
		Rule: "j5s programs enumerated by families (single-field matrix, numbering, nesting, enums, references across files / packages / import forms, services, topics, entities), each crossing one or two feature dimensions exhaustively; every program is compiled through the real pipeline in memory (fresh PackageSet) and the compiled descriptors are compared with the reference compiler's contract; a case = one program; distinct by rendered source text; non-trivial = program with at least one declaration",
		Assumptions: []string{
			"the reference compiler is written from README.md and the observed file / package naming conventions; declaration order of messages, enums and imports is not part of the contract; options are C04/C12's business",
			"identifier alphabet avoids digits and acronyms so that snake / camel conversion is unambiguous",
		},
		Isolate:        true,
		QuickBudget:    900,
		ThoroughBudget: 7200,
		Run:            run,
	})
}

func checkProgram(t *vk.T, p *gj5s.Program, coord string) {
	t.Coord(coord)
	fam := coord
	if i := strings.IndexByte(fam, '|'); i > 0 {
		fam = fam[:i]
	}
	t.SigCoord(fam)
	t.Nontrivial()
	b := p.Bundle()
	src := ""
	for _, f := range p.Files {
		src += "// " + f.Path() + "\n" + b.Files[f.Path()] + "\n"
	}
	t.Key(src)
	want := p.Expected()
	ps, err := b.NewPackageSet()
	if err != nil {
		panic(err)
	}
	var files []protoreflect.FileDescriptor
	seen := map[string]bool{}
	for _, pkg := range b.Packages {
		out, err := ps.CompilePackage(ctx, pkg)
		t.Step()
		if err != nil {
			t.Violation("valid-program-rejected|"+fam+"|"+vk.ErrTail(err), fmt.Sprintf("a program of the documented language does not compile: %v\n%s", err, src), src, nil, err.Error())
			return
		}
		for _, f := range out {
			if !seen[f.Path()] {
				seen[f.Path()] = true
				files = append(files, f)
			}
		}
	}
	got := gj5s.Extract(files)
	// files of other packages pulled in as dependencies are only compared if the program declares them
	diffs := gj5s.Diff(want, got)
	if len(diffs) > 0 {
		d := diffs[0]
		all := ""
		for _, x := range diffs {
			all += "  - " + x.Text + "\n"
		}
		t.Violation("contract|"+fam+"|"+d.Clause, fmt.Sprintf("compiled contract differs from the declared one (%d differences):\n%s%s", len(diffs), all, src), src, nil, all)
		return
	}
	t.Sample(src)
}

func run(r *vk.Runner) {
	for _, c := range gj5s.AllContractCases(!r.Quick()) {
		c := c
		if r.Stopped() {
			return
		}
		if c.Family == "entities" && strings.HasPrefix(c.ID, "entity:5.") {
			continue // entity names with adjacent capitals are C17's business (known finding there)
		}
		r.Family(c.Family)
		r.Do(c.ID, func(t *vk.T) { checkProgram(t, c.P, c.Coord) })
	}
}
