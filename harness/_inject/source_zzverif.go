package source

import "google.golang.org/protobuf/types/descriptorpb"

// ZZVerifImageFiles exposes the dependency set the tool builds from source images to the /verif
// harness (overlay only): primary are the files the images list as sources, dependencies the rest.
func ZZVerifImageFiles(primary, dependencies map[string]*descriptorpb.FileDescriptorProto) DependencySet {
	if dependencies == nil {
		dependencies = map[string]*descriptorpb.FileDescriptorProto{}
	}
	return &imageFiles{primary: primary, dependencies: dependencies}
}
