package genlsp

import (
	"context"

	"go.lsp.dev/protocol"
)

// ZZVerifFormat exposes the LSP formatter to the /verif harness (overlay only).
func ZZVerifFormat(text string) ([]protocol.TextEdit, error) {
	return astFormatter{}.Format(context.Background(), &protocol.TextDocumentItem{Text: text})
}
