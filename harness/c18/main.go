// C18: schema reflection over arbitrary proto3 descriptors is total and self-consistent.
package main

import (
	"google.golang.org/protobuf/proto"
	"github.com/pentops/j5/gen/j5/ext/v1/ext_j5pb"
	"fmt"
	"sort"
	"strings"

	"github.com/pentops/j5/gen/j5/schema/v1/schema_j5pb"
	"github.com/pentops/j5/internal/zzverif/vk"
	"github.com/pentops/j5/lib/j5codec"
	"github.com/pentops/j5/lib/j5reflect"
	"github.com/pentops/j5/lib/j5schema"
	"google.golang.org/protobuf/reflect/protodesc"
	"google.golang.org/protobuf/reflect/protoreflect"
	"google.golang.org/protobuf/reflect/protoregistry"
	"google.golang.org/protobuf/types/descriptorpb"
	"google.golang.org/protobuf/types/dynamicpb"
	_ "google.golang.org/protobuf/types/known/durationpb"
	_ "google.golang.org/protobuf/types/known/emptypb"
	_ "google.golang.org/protobuf/types/known/fieldmaskpb"
	_ "google.golang.org/protobuf/types/known/structpb"
	_ "google.golang.org/protobuf/types/known/wrapperspb"
)

func main() {
	vk.Main(&vk.Check{
		ID:   "C18",
		Rule: "descriptor sets: the full matrix (proto field type x label x one annotation) over 31 field types (all 15 proto scalar kinds incl. the ones J5 does not support, enum, message, oneof wrapper, self reference, well-known types, j5 types), 4 labels and ~75 annotations ((j5.ext.v1.field) of every type, (buf.validate.field) of every type at boundary values, (j5.list.v1.field) of every type, (j5.ext.v1.key), none) — consistent with the field or not; plus message-level options, enum shapes, real / synthetic / exposed oneofs, recursion shapes, flatten chains and JSON-name collisions; thorough adds pairs of annotations (j5 x validate x list) on the same field; a case = one descriptor set; distinct by construction; non-trivial = every case (each has at least one annotated or typed field)",
		Assumptions: []string{
			"descriptor sets are built with protodesc from FileDescriptorProtos (no protoc), so options arrive as typed extension messages",
			"the populated message sets every field to one simple representable value (depth-limited for recursive types)",
			"termination by a 120 s watchdog",
		},
		Isolate:        true,
		QuickBudget:    900,
		ThoroughBudget: 7200,
		Run:            run,
	})
}

// ---------------- oracle ----------------

type resolver struct{ types *dynamicpb.Types }

func (r resolver) FindMessageByName(n protoreflect.FullName) (protoreflect.MessageType, error) {
	if mt, err := r.types.FindMessageByName(n); err == nil {
		return mt, nil
	}
	return protoregistry.GlobalTypes.FindMessageByName(n)
}

func populate(m protoreflect.Message, depth int) {
	md := m.Descriptor()
	switch md.FullName() {
	case "google.protobuf.Timestamp":
		m.Set(md.Fields().ByName("seconds"), protoreflect.ValueOfInt64(1700000000))
		return
	case "google.protobuf.Duration":
		m.Set(md.Fields().ByName("seconds"), protoreflect.ValueOfInt64(5))
		return
	case "j5.types.date.v1.Date":
		m.Set(md.Fields().ByName("year"), protoreflect.ValueOfInt32(2024))
		m.Set(md.Fields().ByName("month"), protoreflect.ValueOfInt32(2))
		m.Set(md.Fields().ByName("day"), protoreflect.ValueOfInt32(29))
		return
	case "j5.types.decimal.v1.Decimal":
		m.Set(md.Fields().ByName("value"), protoreflect.ValueOfString("1.5"))
		return
	case "j5.types.any.v1.Any":
		m.Set(md.Fields().ByName("type_name"), protoreflect.ValueOfString("rt.v1.Sub"))
		m.Set(md.Fields().ByName("j5_json"), protoreflect.ValueOfBytes([]byte(`{"sVal":"x"}`)))
		return
	case "google.protobuf.Any":
		m.Set(md.Fields().ByName("type_url"), protoreflect.ValueOfString("type.googleapis.com/rt.v1.Sub"))
		m.Set(md.Fields().ByName("value"), protoreflect.ValueOfBytes([]byte{0x0a, 0x01, 'x'}))
		return
	case "google.protobuf.Struct", "google.protobuf.Value", "google.protobuf.ListValue":
		return
	}
	oneofDone := map[string]bool{}
	wrapper := refIsWrapper(md)
	for i := 0; i < md.Fields().Len(); i++ {
		fd := md.Fields().Get(i)
		if wrapper && i > 0 {
			break // a oneof wrapper carries at most one arm
		}
		if oo := fd.ContainingOneof(); oo != nil && !oo.IsSynthetic() {
			if oneofDone[string(oo.Name())] {
				continue
			}
			oneofDone[string(oo.Name())] = true
		}
		scalar := func(fd protoreflect.FieldDescriptor) protoreflect.Value {
			switch fd.Kind() {
			case protoreflect.BoolKind:
				return protoreflect.ValueOfBool(true)
			case protoreflect.StringKind:
				return protoreflect.ValueOfString("x")
			case protoreflect.BytesKind:
				return protoreflect.ValueOfBytes([]byte{1, 2})
			case protoreflect.Int32Kind, protoreflect.Sint32Kind, protoreflect.Sfixed32Kind:
				return protoreflect.ValueOfInt32(3)
			case protoreflect.Int64Kind, protoreflect.Sint64Kind, protoreflect.Sfixed64Kind:
				return protoreflect.ValueOfInt64(3)
			case protoreflect.Uint32Kind, protoreflect.Fixed32Kind:
				return protoreflect.ValueOfUint32(3)
			case protoreflect.Uint64Kind, protoreflect.Fixed64Kind:
				return protoreflect.ValueOfUint64(3)
			case protoreflect.FloatKind:
				return protoreflect.ValueOfFloat32(1.5)
			case protoreflect.DoubleKind:
				return protoreflect.ValueOfFloat64(1.5)
			case protoreflect.EnumKind:
				vals := fd.Enum().Values()
				return protoreflect.ValueOfEnum(vals.Get(vals.Len() - 1).Number())
			}
			panic("scalar kind " + fd.Kind().String())
		}
		// an enum whose only value is the (excluded) zero value has no representable value
		skipEnum := func(fd protoreflect.FieldDescriptor) bool {
			if fd.Kind() != protoreflect.EnumKind {
				return false
			}
			vals := fd.Enum().Values()
			return vals.Get(vals.Len()-1).Number() == 0
		}
		if (fd.IsMap() && skipEnum(fd.MapValue())) || (!fd.IsMap() && skipEnum(fd)) {
			continue
		}
		switch {
		case fd.IsMap():
			mp := m.Mutable(fd).Map()
			vd := fd.MapValue()
			if vd.Message() != nil {
				if depth <= 0 {
					continue
				}
				v := mp.NewValue()
				populate(v.Message(), depth-1)
				mp.Set(protoreflect.ValueOfString("k").MapKey(), v)
			} else {
				mp.Set(protoreflect.ValueOfString("k").MapKey(), scalar(vd))
			}
		case fd.IsList():
			l := m.Mutable(fd).List()
			if fd.Message() != nil {
				if depth <= 0 {
					continue
				}
				v := l.NewElement()
				populate(v.Message(), depth-1)
				l.Append(v)
			} else {
				l.Append(scalar(fd))
			}
		case fd.Message() != nil:
			if depth <= 0 {
				continue
			}
			populate(m.Mutable(fd).Message(), depth-1)
		default:
			m.Set(fd, scalar(fd))
		}
	}
}

// kindMatches: the schema of a property vs the proto field its path names.
func kindMatches(fs j5schema.FieldSchema, fd protoreflect.FieldDescriptor) string {
	item := func(s j5schema.FieldSchema, fd protoreflect.FieldDescriptor) string {
		switch st := s.(type) {
		case *j5schema.ScalarSchema:
			var want []protoreflect.Kind
			wantMsg := ""
			switch t := st.Proto.Type.(type) {
			case *schema_j5pb.Field_String_:
				want = []protoreflect.Kind{protoreflect.StringKind}
				if t.String_.GetFormat() == "duration" {
					want, wantMsg = nil, "google.protobuf.Duration"
				}
			case *schema_j5pb.Field_Key:
				want = []protoreflect.Kind{protoreflect.StringKind}
			case *schema_j5pb.Field_Bool:
				want = []protoreflect.Kind{protoreflect.BoolKind}
			case *schema_j5pb.Field_Bytes:
				want = []protoreflect.Kind{protoreflect.BytesKind}
			case *schema_j5pb.Field_Integer:
				switch t.Integer.Format {
				case schema_j5pb.IntegerField_FORMAT_INT32:
					want = []protoreflect.Kind{protoreflect.Int32Kind, protoreflect.Sint32Kind, protoreflect.Sfixed32Kind}
				case schema_j5pb.IntegerField_FORMAT_INT64:
					want = []protoreflect.Kind{protoreflect.Int64Kind, protoreflect.Sint64Kind, protoreflect.Sfixed64Kind}
				case schema_j5pb.IntegerField_FORMAT_UINT32:
					want = []protoreflect.Kind{protoreflect.Uint32Kind, protoreflect.Fixed32Kind}
				case schema_j5pb.IntegerField_FORMAT_UINT64:
					want = []protoreflect.Kind{protoreflect.Uint64Kind, protoreflect.Fixed64Kind}
				}
			case *schema_j5pb.Field_Float:
				switch t.Float.Format {
				case schema_j5pb.FloatField_FORMAT_FLOAT32:
					want = []protoreflect.Kind{protoreflect.FloatKind}
				case schema_j5pb.FloatField_FORMAT_FLOAT64:
					want = []protoreflect.Kind{protoreflect.DoubleKind}
				}
			case *schema_j5pb.Field_Timestamp:
				wantMsg = "google.protobuf.Timestamp"
			case *schema_j5pb.Field_Date:
				wantMsg = "j5.types.date.v1.Date"
			case *schema_j5pb.Field_Decimal:
				wantMsg = "j5.types.decimal.v1.Decimal"
			default:
				return fmt.Sprintf("unexpected scalar schema type %T", t)
			}
			if wantMsg != "" {
				if fd.Message() == nil || string(fd.Message().FullName()) != wantMsg {
					return fmt.Sprintf("schema %s but the field is %s", st.TypeName(), describe(fd))
				}
				return ""
			}
			for _, k := range want {
				if fd.Kind() == k {
					return ""
				}
			}
			return fmt.Sprintf("schema %s but the field is %s", st.TypeName(), describe(fd))
		case *j5schema.EnumField:
			if fd.Kind() != protoreflect.EnumKind {
				return "enum schema but the field is " + describe(fd)
			}
		case *j5schema.ObjectField, *j5schema.OneofField:
			if fd.Message() == nil {
				return "object/oneof schema but the field is " + describe(fd)
			}
		case *j5schema.AnyField:
			if fd.Message() == nil {
				return "any schema but the field is " + describe(fd)
			}
		}
		return ""
	}
	switch st := fs.(type) {
	case *j5schema.ArrayField:
		if !fd.IsList() {
			return "array schema but the field is " + describe(fd)
		}
		return item(st.Schema, fd)
	case *j5schema.MapField:
		if !fd.IsMap() {
			if fd.Message() != nil && fd.Message().FullName() == "google.protobuf.Struct" {
				return ""
			}
			return "map schema but the field is " + describe(fd)
		}
		return item(st.Schema, fd.MapValue())
	}
	if fd.IsList() || fd.IsMap() {
		return "non-container schema but the field is " + describe(fd)
	}
	return item(fs, fd)
}

func describe(fd protoreflect.FieldDescriptor) string {
	s := fd.Kind().String()
	if fd.Message() != nil {
		s = string(fd.Message().FullName())
	}
	if fd.IsList() {
		s = "repeated " + s
	}
	if fd.IsMap() {
		s = "map of " + describe(fd.MapValue())
	}
	return s
}

// checkSet applies the C18 oracle to one descriptor set.
var scope string // signature scope of the current case (single-threaded worker)

func checkSet(t *vk.T, fdp *descriptorpb.FileDescriptorProto, coord string) {
	scope = coord
	if i := strings.Index(coord, "|label="); i > 0 {
		scope = coord[:i] // matrix: the field type only
	}
	t.SigCoord("reflect|" + scope)
	t.Coord(coord)
	t.Nontrivial()
	fd, err := protodesc.NewFile(fdp, protoregistry.GlobalFiles)
	if err != nil {
		panic(fmt.Sprintf("harness: descriptor set does not link (%s): %v", coord, err))
	}
	files := &protoregistry.Files{}
	if err := files.RegisterFile(fd); err != nil {
		panic(err)
	}
	types := dynamicpb.NewTypes(files)

	// (1) whole-set reflection
	ss, err := j5schema.SchemaSetFromFiles(files, func(protoreflect.FileDescriptor) bool { return true })
	t.Step()
	if err == nil && ss == nil {
		t.Violation("schemaset-nil-nil", "SchemaSetFromFiles returned (nil, nil)", coord, nil, nil)
	}
	setOK := err == nil

	// (2) per-message reflection through a cache, then the codec
	cache := j5schema.NewSchemaCache()
	anyOK := false
	var walk func(mds protoreflect.MessageDescriptors)
	walk = func(mds protoreflect.MessageDescriptors) {
		for i := 0; i < mds.Len(); i++ {
			md := mds.Get(i)
			if md.IsMapEntry() {
				continue
			}
			walk(md.Messages())
			schema, err := cache.Schema(md)
			t.Step()
			// history: whether a type reflects must not depend on which lookups the cache served (and
			// failed) before; a fresh cache asked for this type alone is the reference
			if _, ferr := j5schema.NewSchemaCache().Schema(md); (ferr == nil) != (err == nil) {
				t.Violation("lookup-depends-on-cache-history|"+scope, fmt.Sprintf("SchemaCache.Schema(%s): on a cache that served the other messages of the file first: %v; on a fresh cache: %v\n%s", md.FullName(), err, ferr, coord), coord, nil, nil)
			}
			t.Step()
			if err != nil {
				// history: asking the same cache again must fail again, not hand out a half-built schema,
				// and the objects built on a failed type must return errors rather than crash
				again, err2 := cache.Schema(md)
				t.Step()
				if err2 == nil {
					t.Violation("second-lookup-succeeds-after-failure|"+scope, fmt.Sprintf("SchemaCache.Schema(%s) fails the first time (%v) and returns (%v, nil) the second time", md.FullName(), err, again), coord, nil, nil)
				}
				refl := j5reflect.New()
				for k := 0; k < 2; k++ {
					root, rerr := refl.NewRoot(dynamicpb.NewMessage(md))
					t.Step()
					if rerr == nil && root == nil {
						t.Violation("newroot-nil-nil-after-failure|"+scope, fmt.Sprintf("NewRoot(%s) returned (nil, nil) on call %d for a type whose schema does not build (%v)", md.FullName(), k+1, err), coord, nil, nil)
						break
					}
				}
				failCodec := j5codec.NewCodec(j5codec.WithResolver(resolver{types}))
				for k := 0; k < 2; k++ {
					_, _ = failCodec.ProtoToJSON(dynamicpb.NewMessage(md))
					_ = failCodec.JSONToProto([]byte(`{}`), dynamicpb.NewMessage(md))
					t.Steps(2)
				}
				continue
			}
			if schema == nil {
				t.Violation("schema-nil-nil", fmt.Sprintf("SchemaCache.Schema(%s) returned (nil, nil)", md.FullName()), coord, nil, nil)
				continue
			}
			anyOK = true
			checkSchema(t, schema, md, coord)
			// codec usable on every reflected type
			codec := j5codec.NewCodec(j5codec.WithResolver(resolver{types}), j5codec.WithProtoToAny())
			for _, which := range []string{"empty", "populated"} {
				msg := dynamicpb.NewMessage(md)
				if which == "populated" {
					populate(msg, 2)
				}
				out, err := codec.ProtoToJSON(msg)
				t.Step()
				if err != nil {
					t.Violation("codec-encode-fails|"+scope+"|"+which+"|"+vk.ErrTail(err), fmt.Sprintf("reflection of %s succeeds but encoding the %s message fails: %v\n%s", md.FullName(), which, err, coord), coord, nil, err.Error())
					continue
				}
				back := dynamicpb.NewMessage(md)
				err = codec.JSONToProto(out, back)
				t.Step()
				if err != nil {
					t.Violation("codec-decode-fails|"+scope+"|"+which+"|"+vk.ErrTail(err), fmt.Sprintf("reflection of %s succeeds but decoding the encoded %s message fails: %v\njson: %s\n%s", md.FullName(), which, err, out, coord), coord, nil, err.Error())
				}
			}
			// NewRoot on a fresh reflector
			root, err := j5reflect.New().NewRoot(dynamicpb.NewMessage(md))
			t.Step()
			if err == nil && root == nil {
				t.Violation("newroot-nil-nil", fmt.Sprintf("NewRoot(%s) returned (nil, nil) although the schema builds", md.FullName()), coord, nil, nil)
			}
		}
	}
	walk(fd.Messages())
	switch {
	case setOK && anyOK:
		t.Class("reflected")
	case !setOK && !anyOK:
		t.Class("rejected")
	default:
		t.Class(fmt.Sprintf("set=%v message=%v", setOK, anyOK))
	}
}

func checkSchema(t *vk.T, schema j5schema.RootSchema, md protoreflect.MessageDescriptor, coord string) {
	var props []*j5schema.ObjectProperty
	var client []*j5schema.ObjectProperty
	switch s := schema.(type) {
	case *j5schema.ObjectSchema:
		props = s.Properties
		client = s.ClientProperties()
	case *j5schema.OneofSchema:
		props = s.Properties
		client = s.Properties
	default:
		return
	}
	seen := map[string]bool{}
	for _, p := range client {
		if seen[p.JSONName] {
			t.Violation("duplicate-property-name|"+scope, fmt.Sprintf("object %s has two properties named %q\n%s", md.FullName(), p.JSONName, coord), coord, nil, p.JSONName)
		}
		seen[p.JSONName] = true
	}
	for _, set := range [][]*j5schema.ObjectProperty{props, client} {
		for _, p := range set {
			if len(p.ProtoField) == 0 {
				if _, ok := p.Schema.(*j5schema.OneofField); !ok {
					t.Violation("empty-proto-path|"+scope, fmt.Sprintf("property %s of %s has an empty proto field path", p.JSONName, md.FullName()), coord, nil, nil)
				}
				continue
			}
			cur := md
			var fd protoreflect.FieldDescriptor
			bad := ""
			for i, n := range p.ProtoField {
				if cur == nil {
					bad = "path continues through a non-message field"
					break
				}
				fd = cur.Fields().ByNumber(n)
				if fd == nil {
					bad = fmt.Sprintf("no field %d in %s", n, cur.FullName())
					break
				}
				if i < len(p.ProtoField)-1 {
					cur = fd.Message()
				}
			}
			if bad == "" {
				bad = kindMatches(p.Schema, fd)
			}
			if bad != "" {
				t.Violation("proto-path-mismatch|"+scope+"|"+sigOf(bad), fmt.Sprintf("property %s of %s (path %v): %s\n%s", p.JSONName, md.FullName(), p.ProtoField, bad, coord), coord, nil, bad)
			}
		}
	}
}

func sigOf(s string) string {
	if i := strings.Index(s, " but the field is "); i > 0 {
		return s[:i] + " vs " + s[i+len(" but the field is "):]
	}
	return s
}

func run(r *vk.Runner) {
	none := annot{"none", func(*descriptorpb.FieldOptions) {}}
	j5a, va, la := j5Annots(), validateAnnots(), listAnnots()
	all := append([]annot{none}, j5a...)
	all = append(all, va...)
	all = append(all, la...)
	r.Note("field_types", len(fieldTypes))
	r.Note("annotations", len(all))
	r.Family("matrix")
	for _, ft := range fieldTypes {
		for _, lb := range labels {
			for _, a := range all {
				ft, lb, a := ft, lb, a
				r.Do(fmt.Sprintf("m:%s:%s:%s", ft.name, lb, a.name), func(t *vk.T) {
					checkSet(t, matrixCase(ft, lb, []annot{a}), fmt.Sprintf("type=%s|label=%s|annotation=%s", ft.name, lb, a.name))
					if a.name == "validate:required" {
						t.Sample(fmt.Sprintf("message M { %s %s f_val = 1 [%s]; }", lb, ft.name, a.name))
					}
				})
			}
		}
	}
	if !r.Quick() {
		r.Family("matrix-pairs")
		for _, ft := range fieldTypes {
			for _, lb := range labels {
				for _, a := range j5a {
					for _, b := range append(append([]annot{}, va...), la...) {
						ft, lb, a, b := ft, lb, a, b
						if !r.Mine() {
							r.SkipCase()
							continue
						}
						r.Do(fmt.Sprintf("p:%s:%s:%s:%s", ft.name, lb, a.name, b.name), func(t *vk.T) {
									checkSet(t, matrixCase(ft, lb, []annot{a, b}), fmt.Sprintf("type=%s|label=%s|annotations=%s+%s", ft.name, lb, a.name, b.name))
						})
					}
				}
				for _, a := range va {
					for _, b := range la {
						ft, lb, a, b := ft, lb, a, b
						if !r.Mine() {
							r.SkipCase()
							continue
						}
						r.Do(fmt.Sprintf("p:%s:%s:%s:%s", ft.name, lb, a.name, b.name), func(t *vk.T) {
									checkSet(t, matrixCase(ft, lb, []annot{a, b}), fmt.Sprintf("type=%s|label=%s|annotations=%s+%s", ft.name, lb, a.name, b.name))
						})
					}
				}
			}
		}
	}
	r.Family("structures")
	st := structures()
	var names []string
	for k := range st {
		names = append(names, k)
	}
	sort.Strings(names)
	for _, name := range names {
		name, f := name, st[name]
		r.Do("s:"+name, func(t *vk.T) {
			checkSet(t, f, "structure="+name)
			t.Sample("structure " + name)
		})
	}
}

// refIsWrapper is the harness's own reading of the documented rule (the code under test must not
// be its own oracle): a message is a oneof wrapper when it says so in (j5.ext.v1.message), or when
// it consists of exactly one real oneof named "type", without oneof options, whose members are all
// messages, and of nothing else.
func refIsWrapper(md protoreflect.MessageDescriptor) bool {
	if mo, ok := proto.GetExtension(md.Options(), ext_j5pb.E_Message).(*ext_j5pb.MessageOptions); ok && mo != nil {
		if mo.IsOneofWrapper {
			return true
		}
		switch mo.Type.(type) {
		case *ext_j5pb.MessageOptions_Oneof:
			return true
		case *ext_j5pb.MessageOptions_Object:
			return false
		}
	}
	if md.Oneofs().Len() != 1 {
		return false
	}
	oo := md.Oneofs().Get(0)
	if oo.IsSynthetic() || oo.Name() != "type" {
		return false
	}
	if x, ok := proto.GetExtension(oo.Options(), ext_j5pb.E_Oneof).(*ext_j5pb.OneofOptions); ok && x != nil {
		return false
	}
	for i := 0; i < md.Fields().Len(); i++ {
		f := md.Fields().Get(i)
		if f.ContainingOneof() != oo || f.Kind() != protoreflect.MessageKind {
			return false
		}
	}
	return md.Fields().Len() > 0
}
