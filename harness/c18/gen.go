// Descriptor-set generator shared by C18 and C15 (the overlay maps this file into both packages).
package main

import (
	"strings"

	"buf.build/gen/go/bufbuild/protovalidate/protocolbuffers/go/buf/validate"
	"github.com/pentops/j5/gen/j5/ext/v1/ext_j5pb"
	"github.com/pentops/j5/gen/j5/list/v1/list_j5pb"
	"github.com/pentops/j5/gen/j5/schema/v1/schema_j5pb"
	"google.golang.org/protobuf/proto"
	"google.golang.org/protobuf/types/descriptorpb"
	_ "google.golang.org/protobuf/types/known/durationpb"
	"google.golang.org/protobuf/types/known/timestamppb"
	_ "google.golang.org/protobuf/types/known/emptypb"
	_ "google.golang.org/protobuf/types/known/fieldmaskpb"
	_ "google.golang.org/protobuf/types/known/structpb"
	_ "google.golang.org/protobuf/types/known/wrapperspb"
)

// ---------------- descriptor construction ----------------

type ftype struct {
	name     string
	t        descriptorpb.FieldDescriptorProto_Type
	typeName string
}

var fieldTypes = []ftype{
	{"double", descriptorpb.FieldDescriptorProto_TYPE_DOUBLE, ""},
	{"float", descriptorpb.FieldDescriptorProto_TYPE_FLOAT, ""},
	{"int32", descriptorpb.FieldDescriptorProto_TYPE_INT32, ""},
	{"int64", descriptorpb.FieldDescriptorProto_TYPE_INT64, ""},
	{"uint32", descriptorpb.FieldDescriptorProto_TYPE_UINT32, ""},
	{"uint64", descriptorpb.FieldDescriptorProto_TYPE_UINT64, ""},
	{"sint32", descriptorpb.FieldDescriptorProto_TYPE_SINT32, ""},
	{"sint64", descriptorpb.FieldDescriptorProto_TYPE_SINT64, ""},
	{"fixed32", descriptorpb.FieldDescriptorProto_TYPE_FIXED32, ""},
	{"fixed64", descriptorpb.FieldDescriptorProto_TYPE_FIXED64, ""},
	{"sfixed32", descriptorpb.FieldDescriptorProto_TYPE_SFIXED32, ""},
	{"sfixed64", descriptorpb.FieldDescriptorProto_TYPE_SFIXED64, ""},
	{"bool", descriptorpb.FieldDescriptorProto_TYPE_BOOL, ""},
	{"string", descriptorpb.FieldDescriptorProto_TYPE_STRING, ""},
	{"bytes", descriptorpb.FieldDescriptorProto_TYPE_BYTES, ""},
	{"enum", descriptorpb.FieldDescriptorProto_TYPE_ENUM, ".rt.v1.Color"},
	{"enum-no-unspecified", descriptorpb.FieldDescriptorProto_TYPE_ENUM, ".rt.v1.Bare"},
	{"message", descriptorpb.FieldDescriptorProto_TYPE_MESSAGE, ".rt.v1.Sub"},
	{"empty-message", descriptorpb.FieldDescriptorProto_TYPE_MESSAGE, ".rt.v1.Nothing"},
	{"wrapper", descriptorpb.FieldDescriptorProto_TYPE_MESSAGE, ".rt.v1.Wrap"},
	{"self", descriptorpb.FieldDescriptorProto_TYPE_MESSAGE, ".rt.v1.M"},
	{"timestamp", descriptorpb.FieldDescriptorProto_TYPE_MESSAGE, ".google.protobuf.Timestamp"},
	{"duration", descriptorpb.FieldDescriptorProto_TYPE_MESSAGE, ".google.protobuf.Duration"},
	{"struct", descriptorpb.FieldDescriptorProto_TYPE_MESSAGE, ".google.protobuf.Struct"},
	{"empty", descriptorpb.FieldDescriptorProto_TYPE_MESSAGE, ".google.protobuf.Empty"},
	{"string-value", descriptorpb.FieldDescriptorProto_TYPE_MESSAGE, ".google.protobuf.StringValue"},
	{"field-mask", descriptorpb.FieldDescriptorProto_TYPE_MESSAGE, ".google.protobuf.FieldMask"},
	{"pb-any", descriptorpb.FieldDescriptorProto_TYPE_MESSAGE, ".google.protobuf.Any"},
	{"j5-any", descriptorpb.FieldDescriptorProto_TYPE_MESSAGE, ".j5.types.any.v1.Any"},
	{"date", descriptorpb.FieldDescriptorProto_TYPE_MESSAGE, ".j5.types.date.v1.Date"},
	{"decimal", descriptorpb.FieldDescriptorProto_TYPE_MESSAGE, ".j5.types.decimal.v1.Decimal"},
}

var labels = []string{"singular", "optional", "repeated", "map"}

type annot struct {
	name string
	set  func(o *descriptorpb.FieldOptions)
}

func j5ext(name string, fo *ext_j5pb.FieldOptions) annot {
	return annot{"j5:" + name, func(o *descriptorpb.FieldOptions) { proto.SetExtension(o, ext_j5pb.E_Field, fo) }}
}
func val(name string, fc *validate.FieldConstraints) annot {
	return annot{"validate:" + name, func(o *descriptorpb.FieldOptions) { proto.SetExtension(o, validate.E_Field, fc) }}
}
func lst(name string, fc *list_j5pb.FieldConstraint) annot {
	return annot{"list:" + name, func(o *descriptorpb.FieldOptions) { proto.SetExtension(o, list_j5pb.E_Field, fc) }}
}

func P[T any](v T) *T { return &v }

var filt = &list_j5pb.FilteringConstraint{Filterable: true, DefaultFilters: []string{"x"}}
var srt = &list_j5pb.SortingConstraint{Sortable: true, DefaultSort: true}

func j5Annots() []annot {
	return []annot{
		j5ext("message-flatten", &ext_j5pb.FieldOptions{Type: &ext_j5pb.FieldOptions_Message{Message: &ext_j5pb.MessageFieldOptions{Flatten: true}}}),
		j5ext("message", &ext_j5pb.FieldOptions{Type: &ext_j5pb.FieldOptions_Message{Message: &ext_j5pb.MessageFieldOptions{}}}),
		j5ext("any", &ext_j5pb.FieldOptions{Type: &ext_j5pb.FieldOptions_Any{Any: &ext_j5pb.AnyField{OnlyDefined: true, Types: []string{"rt.v1.Sub"}}}}),
		j5ext("any-open-with-types", &ext_j5pb.FieldOptions{Type: &ext_j5pb.FieldOptions_Any{Any: &ext_j5pb.AnyField{OnlyDefined: false, Types: []string{"rt.v1.Sub", "rt.v1.Nothing"}}}}),
		j5ext("any-only-defined-no-types", &ext_j5pb.FieldOptions{Type: &ext_j5pb.FieldOptions_Any{Any: &ext_j5pb.AnyField{OnlyDefined: true}}}),
		j5ext("any-empty", &ext_j5pb.FieldOptions{Type: &ext_j5pb.FieldOptions_Any{Any: &ext_j5pb.AnyField{}}}),
		j5ext("object-flatten", &ext_j5pb.FieldOptions{Type: &ext_j5pb.FieldOptions_Object{Object: &ext_j5pb.ObjectField{Flatten: true}}}),
		j5ext("enum", &ext_j5pb.FieldOptions{Type: &ext_j5pb.FieldOptions_Enum{Enum: &ext_j5pb.EnumField{}}}),
		j5ext("oneof", &ext_j5pb.FieldOptions{Type: &ext_j5pb.FieldOptions_Oneof{Oneof: &ext_j5pb.OneofField{}}}),
		j5ext("map", &ext_j5pb.FieldOptions{Type: &ext_j5pb.FieldOptions_Map{Map: &ext_j5pb.MapField{SingleForm: P("thing")}}}),
		j5ext("array", &ext_j5pb.FieldOptions{Type: &ext_j5pb.FieldOptions_Array{Array: &ext_j5pb.ArrayField{SingleForm: P("thing")}}}),
		j5ext("string", &ext_j5pb.FieldOptions{Type: &ext_j5pb.FieldOptions_String_{String_: &ext_j5pb.StringField{}}}),
		j5ext("integer", &ext_j5pb.FieldOptions{Type: &ext_j5pb.FieldOptions_Integer{Integer: &ext_j5pb.IntegerField{Rules: &ext_j5pb.IntegerField_Rules{Minimum: P(int64(0)), Maximum: P(int64(10)), ExclusiveMinimum: P(true)}}}}),
		j5ext("float", &ext_j5pb.FieldOptions{Type: &ext_j5pb.FieldOptions_Float{Float: &ext_j5pb.FloatField{}}}),
		j5ext("bool", &ext_j5pb.FieldOptions{Type: &ext_j5pb.FieldOptions_Bool{Bool: &ext_j5pb.BoolField{}}}),
		j5ext("bytes", &ext_j5pb.FieldOptions{Type: &ext_j5pb.FieldOptions_Bytes{Bytes: &ext_j5pb.BytesField{}}}),
		j5ext("decimal", &ext_j5pb.FieldOptions{Type: &ext_j5pb.FieldOptions_Decimal{Decimal: &ext_j5pb.DecimalField{Rules: &ext_j5pb.DecimalField_Rules{Minimum: P("0"), ExclusiveMaximum: P(true), Maximum: P("1.5")}}}}),
		j5ext("date", &ext_j5pb.FieldOptions{Type: &ext_j5pb.FieldOptions_Date{Date: &ext_j5pb.DateField{Rules: &ext_j5pb.DateField_Rules{Minimum: P("2000-01-01"), ExclusiveMinimum: P(true)}}}}),
		j5ext("timestamp", &ext_j5pb.FieldOptions{Type: &ext_j5pb.FieldOptions_Timestamp{Timestamp: &ext_j5pb.TimestampField{}}}),
		j5ext("key", &ext_j5pb.FieldOptions{Type: &ext_j5pb.FieldOptions_Key{Key: &ext_j5pb.KeyField{}}}),
		j5ext("key-id62", &ext_j5pb.FieldOptions{Type: &ext_j5pb.FieldOptions_Key{Key: &ext_j5pb.KeyField{Type: &ext_j5pb.KeyField_Format_{Format: ext_j5pb.KeyField_FORMAT_ID62}}}}),
		j5ext("key-uuid", &ext_j5pb.FieldOptions{Type: &ext_j5pb.FieldOptions_Key{Key: &ext_j5pb.KeyField{Type: &ext_j5pb.KeyField_Format_{Format: ext_j5pb.KeyField_FORMAT_UUID}}}}),
		j5ext("key-pattern", &ext_j5pb.FieldOptions{Type: &ext_j5pb.FieldOptions_Key{Key: &ext_j5pb.KeyField{Type: &ext_j5pb.KeyField_Pattern{Pattern: "^[a-z]+$"}}}}),
		j5ext("key-format-99", &ext_j5pb.FieldOptions{Type: &ext_j5pb.FieldOptions_Key{Key: &ext_j5pb.KeyField{Type: &ext_j5pb.KeyField_Format_{Format: 99}}}}),
		j5ext("empty", &ext_j5pb.FieldOptions{}),
		{"psm-key-primary", func(o *descriptorpb.FieldOptions) {
			proto.SetExtension(o, ext_j5pb.E_Key, &ext_j5pb.PSMKeyFieldOptions{PrimaryKey: true})
		}},
		{"psm-key-foreign", func(o *descriptorpb.FieldOptions) {
			proto.SetExtension(o, ext_j5pb.E_Key, &ext_j5pb.PSMKeyFieldOptions{ForeignKey: &schema_j5pb.EntityRef{Package: "rt.v1", Entity: "thing"}})
		}},
	}
}

func validateAnnots() []annot {
	return []annot{
		val("required", &validate.FieldConstraints{Required: P(true)}),
		val("required-false", &validate.FieldConstraints{Required: P(false)}),
		val("ignore-always", &validate.FieldConstraints{Ignore: validate.Ignore_IGNORE_ALWAYS.Enum(), Type: &validate.FieldConstraints_String_{String_: &validate.StringRules{MinLen: P(uint64(1))}}}),
		val("ignore-if-unpopulated-repeated", &validate.FieldConstraints{Ignore: validate.Ignore_IGNORE_IF_UNPOPULATED.Enum(), Type: &validate.FieldConstraints_Repeated{Repeated: &validate.RepeatedRules{MinItems: P(uint64(1))}}}),
		val("string-len", &validate.FieldConstraints{Type: &validate.FieldConstraints_String_{String_: &validate.StringRules{MinLen: P(uint64(0)), MaxLen: P(uint64(3))}}}),
		val("string-pattern", &validate.FieldConstraints{Type: &validate.FieldConstraints_String_{String_: &validate.StringRules{Pattern: P("^a+$")}}}),
		val("string-id62-pattern", &validate.FieldConstraints{Type: &validate.FieldConstraints_String_{String_: &validate.StringRules{Pattern: P(`^[0-9A-Za-z]{22}$`)}}}),
		val("string-date-pattern", &validate.FieldConstraints{Type: &validate.FieldConstraints_String_{String_: &validate.StringRules{Pattern: P(`^\d{4}-\d{2}-\d{2}$`)}}}),
		val("string-uuid", &validate.FieldConstraints{Type: &validate.FieldConstraints_String_{String_: &validate.StringRules{WellKnown: &validate.StringRules_Uuid{Uuid: true}}}}),
		val("string-email", &validate.FieldConstraints{Type: &validate.FieldConstraints_String_{String_: &validate.StringRules{WellKnown: &validate.StringRules_Email{Email: true}}}}),
		val("string-address", &validate.FieldConstraints{Type: &validate.FieldConstraints_String_{String_: &validate.StringRules{WellKnown: &validate.StringRules_Address{Address: true}}}}),
		val("string-empty", &validate.FieldConstraints{Type: &validate.FieldConstraints_String_{String_: &validate.StringRules{}}}),
		val("int32-gt-lte", &validate.FieldConstraints{Type: &validate.FieldConstraints_Int32{Int32: &validate.Int32Rules{GreaterThan: &validate.Int32Rules_Gt{Gt: 0}, LessThan: &validate.Int32Rules_Lte{Lte: 10}}}}),
		val("int32-const", &validate.FieldConstraints{Type: &validate.FieldConstraints_Int32{Int32: &validate.Int32Rules{Const: P(int32(5))}}}),
		val("int32-in", &validate.FieldConstraints{Type: &validate.FieldConstraints_Int32{Int32: &validate.Int32Rules{In: []int32{1, 2}}}}),
		val("int64-gte-lt", &validate.FieldConstraints{Type: &validate.FieldConstraints_Int64{Int64: &validate.Int64Rules{GreaterThan: &validate.Int64Rules_Gte{Gte: -5}, LessThan: &validate.Int64Rules_Lt{Lt: 1 << 40}}}}),
		val("uint32-gt", &validate.FieldConstraints{Type: &validate.FieldConstraints_Uint32{Uint32: &validate.UInt32Rules{GreaterThan: &validate.UInt32Rules_Gt{Gt: 1}}}}),
		val("uint64-lte-max", &validate.FieldConstraints{Type: &validate.FieldConstraints_Uint64{Uint64: &validate.UInt64Rules{LessThan: &validate.UInt64Rules_Lte{Lte: 1<<64 - 1}}}}),
		val("sint32-gt", &validate.FieldConstraints{Type: &validate.FieldConstraints_Sint32{Sint32: &validate.SInt32Rules{GreaterThan: &validate.SInt32Rules_Gt{Gt: 1}}}}),
		val("sint64-gt", &validate.FieldConstraints{Type: &validate.FieldConstraints_Sint64{Sint64: &validate.SInt64Rules{GreaterThan: &validate.SInt64Rules_Gt{Gt: 1}}}}),
		val("fixed32-gt", &validate.FieldConstraints{Type: &validate.FieldConstraints_Fixed32{Fixed32: &validate.Fixed32Rules{GreaterThan: &validate.Fixed32Rules_Gt{Gt: 1}}}}),
		val("fixed64-gt", &validate.FieldConstraints{Type: &validate.FieldConstraints_Fixed64{Fixed64: &validate.Fixed64Rules{GreaterThan: &validate.Fixed64Rules_Gt{Gt: 1}}}}),
		val("sfixed64-gt", &validate.FieldConstraints{Type: &validate.FieldConstraints_Sfixed64{Sfixed64: &validate.SFixed64Rules{GreaterThan: &validate.SFixed64Rules_Gt{Gt: 1}}}}),
		val("float-gt-lt", &validate.FieldConstraints{Type: &validate.FieldConstraints_Float{Float: &validate.FloatRules{GreaterThan: &validate.FloatRules_Gt{Gt: 0}, LessThan: &validate.FloatRules_Lt{Lt: 1.5}}}}),
		val("double-gte-lte", &validate.FieldConstraints{Type: &validate.FieldConstraints_Double{Double: &validate.DoubleRules{GreaterThan: &validate.DoubleRules_Gte{Gte: 0}, LessThan: &validate.DoubleRules_Lte{Lte: 1.5}}}}),
		val("bool-const", &validate.FieldConstraints{Type: &validate.FieldConstraints_Bool{Bool: &validate.BoolRules{Const: P(true)}}}),
		val("bool-empty", &validate.FieldConstraints{Type: &validate.FieldConstraints_Bool{Bool: &validate.BoolRules{}}}),
		val("bytes-len", &validate.FieldConstraints{Type: &validate.FieldConstraints_Bytes{Bytes: &validate.BytesRules{MinLen: P(uint64(1)), MaxLen: P(uint64(3))}}}),
		val("enum-defined-only", &validate.FieldConstraints{Type: &validate.FieldConstraints_Enum{Enum: &validate.EnumRules{DefinedOnly: P(true)}}}),
		val("enum-in", &validate.FieldConstraints{Type: &validate.FieldConstraints_Enum{Enum: &validate.EnumRules{In: []int32{1, 2}}}}),
		val("enum-in-undefined", &validate.FieldConstraints{Type: &validate.FieldConstraints_Enum{Enum: &validate.EnumRules{In: []int32{42}}}}),
		val("enum-not-in-zero", &validate.FieldConstraints{Type: &validate.FieldConstraints_Enum{Enum: &validate.EnumRules{NotIn: []int32{0, 1}}}}),
		val("repeated-items", &validate.FieldConstraints{Type: &validate.FieldConstraints_Repeated{Repeated: &validate.RepeatedRules{MinItems: P(uint64(1)), MaxItems: P(uint64(3)), Unique: P(true), Items: &validate.FieldConstraints{Type: &validate.FieldConstraints_String_{String_: &validate.StringRules{MinLen: P(uint64(1))}}}}}}),
		val("repeated-empty", &validate.FieldConstraints{Type: &validate.FieldConstraints_Repeated{Repeated: &validate.RepeatedRules{}}}),
		val("map-pairs", &validate.FieldConstraints{Type: &validate.FieldConstraints_Map{Map: &validate.MapRules{MinPairs: P(uint64(1)), Values: &validate.FieldConstraints{Type: &validate.FieldConstraints_Int32{Int32: &validate.Int32Rules{GreaterThan: &validate.Int32Rules_Gt{Gt: 0}}}}}}}),
		val("any-in", &validate.FieldConstraints{Type: &validate.FieldConstraints_Any{Any: &validate.AnyRules{In: []string{"type.googleapis.com/rt.v1.Sub"}}}}),
		val("timestamp-gt-now", &validate.FieldConstraints{Type: &validate.FieldConstraints_Timestamp{Timestamp: &validate.TimestampRules{GreaterThan: &validate.TimestampRules_GtNow{GtNow: true}}}}),
		val("timestamp-empty", &validate.FieldConstraints{Type: &validate.FieldConstraints_Timestamp{Timestamp: &validate.TimestampRules{}}}),
		val("duration-empty", &validate.FieldConstraints{Type: &validate.FieldConstraints_Duration{Duration: &validate.DurationRules{}}}),
		val("cel", &validate.FieldConstraints{Cel: []*validate.Constraint{{Id: P("x"), Expression: P("true")}}}),
	}
}

func listAnnots() []annot {
	ir := &list_j5pb.IntegerRules{Filtering: filt, Sorting: srt}
	fr := &list_j5pb.FloatRules{Filtering: filt, Sorting: srt}
	return []annot{
		lst("double", &list_j5pb.FieldConstraint{Type: &list_j5pb.FieldConstraint_Double{Double: fr}}),
		lst("float", &list_j5pb.FieldConstraint{Type: &list_j5pb.FieldConstraint_Float{Float: fr}}),
		lst("fixed32", &list_j5pb.FieldConstraint{Type: &list_j5pb.FieldConstraint_Fixed32{Fixed32: ir}}),
		lst("fixed64", &list_j5pb.FieldConstraint{Type: &list_j5pb.FieldConstraint_Fixed64{Fixed64: ir}}),
		lst("int32", &list_j5pb.FieldConstraint{Type: &list_j5pb.FieldConstraint_Int32{Int32: ir}}),
		lst("int64", &list_j5pb.FieldConstraint{Type: &list_j5pb.FieldConstraint_Int64{Int64: ir}}),
		lst("sint32", &list_j5pb.FieldConstraint{Type: &list_j5pb.FieldConstraint_Sint32{Sint32: ir}}),
		lst("sint64", &list_j5pb.FieldConstraint{Type: &list_j5pb.FieldConstraint_Sint64{Sint64: ir}}),
		lst("uint32", &list_j5pb.FieldConstraint{Type: &list_j5pb.FieldConstraint_Uint32{Uint32: ir}}),
		lst("uint64", &list_j5pb.FieldConstraint{Type: &list_j5pb.FieldConstraint_Uint64{Uint64: ir}}),
		lst("bool", &list_j5pb.FieldConstraint{Type: &list_j5pb.FieldConstraint_Bool{Bool: &list_j5pb.BoolRules{Filtering: filt}}}),
		lst("string-open-text", &list_j5pb.FieldConstraint{Type: &list_j5pb.FieldConstraint_String_{String_: &list_j5pb.StringRules{WellKnown: &list_j5pb.StringRules_OpenText{OpenText: &list_j5pb.OpenTextRules{Searching: &list_j5pb.SearchingConstraint{Searchable: true, FieldIdentifier: "x"}}}}}}),
		lst("string-date", &list_j5pb.FieldConstraint{Type: &list_j5pb.FieldConstraint_String_{String_: &list_j5pb.StringRules{WellKnown: &list_j5pb.StringRules_Date{Date: &list_j5pb.DateRules{Filtering: filt}}}}}),
		lst("string-fk-unique", &list_j5pb.FieldConstraint{Type: &list_j5pb.FieldConstraint_String_{String_: &list_j5pb.StringRules{WellKnown: &list_j5pb.StringRules_ForeignKey{ForeignKey: &list_j5pb.ForeignKeyRules{Type: &list_j5pb.ForeignKeyRules_UniqueString{UniqueString: &list_j5pb.KeyRules{Filtering: filt}}}}}}}),
		lst("string-fk-uuid", &list_j5pb.FieldConstraint{Type: &list_j5pb.FieldConstraint_String_{String_: &list_j5pb.StringRules{WellKnown: &list_j5pb.StringRules_ForeignKey{ForeignKey: &list_j5pb.ForeignKeyRules{Type: &list_j5pb.ForeignKeyRules_Uuid{Uuid: &list_j5pb.KeyRules{Filtering: filt}}}}}}}),
		lst("string-fk-id62", &list_j5pb.FieldConstraint{Type: &list_j5pb.FieldConstraint_String_{String_: &list_j5pb.StringRules{WellKnown: &list_j5pb.StringRules_ForeignKey{ForeignKey: &list_j5pb.ForeignKeyRules{Type: &list_j5pb.ForeignKeyRules_Id62{Id62: &list_j5pb.KeyRules{Filtering: filt}}}}}}}),
		lst("string-fk-empty", &list_j5pb.FieldConstraint{Type: &list_j5pb.FieldConstraint_String_{String_: &list_j5pb.StringRules{WellKnown: &list_j5pb.StringRules_ForeignKey{ForeignKey: &list_j5pb.ForeignKeyRules{}}}}}),
		lst("enum", &list_j5pb.FieldConstraint{Type: &list_j5pb.FieldConstraint_Enum{Enum: &list_j5pb.EnumRules{Filtering: filt}}}),
		lst("oneof", &list_j5pb.FieldConstraint{Type: &list_j5pb.FieldConstraint_Oneof{Oneof: &list_j5pb.OneofRules{Filtering: filt}}}),
		lst("timestamp", &list_j5pb.FieldConstraint{Type: &list_j5pb.FieldConstraint_Timestamp{Timestamp: &list_j5pb.TimestampRules{Filtering: filt, Sorting: srt}}}),
		lst("date", &list_j5pb.FieldConstraint{Type: &list_j5pb.FieldConstraint_Date{Date: &list_j5pb.DateRules{Filtering: filt}}}),
		lst("decimal", &list_j5pb.FieldConstraint{Type: &list_j5pb.FieldConstraint_Decimal{Decimal: &list_j5pb.DecimalRules{Filtering: filt, Sorting: srt}}}),
		lst("any", &list_j5pb.FieldConstraint{Type: &list_j5pb.FieldConstraint_Any{Any: &list_j5pb.AnyRules{Filtering: filt}}}),
		lst("empty", &list_j5pb.FieldConstraint{}),
	}
}

func str(s string) *string { return &s }

func fld(name string, num int32, ft ftype) *descriptorpb.FieldDescriptorProto {
	f := &descriptorpb.FieldDescriptorProto{Name: str(name), Number: proto.Int32(num), Label: descriptorpb.FieldDescriptorProto_LABEL_OPTIONAL.Enum(), Type: ft.t.Enum()}
	if ft.typeName != "" {
		f.TypeName = str(ft.typeName)
	}
	return f
}

func baseFile() *descriptorpb.FileDescriptorProto {
	stringT := ftype{"string", descriptorpb.FieldDescriptorProto_TYPE_STRING, ""}
	int64T := ftype{"int64", descriptorpb.FieldDescriptorProto_TYPE_INT64, ""}
	armA := fld("arm_a", 1, ftype{"m", descriptorpb.FieldDescriptorProto_TYPE_MESSAGE, ".rt.v1.Sub"})
	armA.OneofIndex = proto.Int32(0)
	armB := fld("arm_b", 2, ftype{"m", descriptorpb.FieldDescriptorProto_TYPE_MESSAGE, ".rt.v1.Nothing"})
	armB.OneofIndex = proto.Int32(0)
	return &descriptorpb.FileDescriptorProto{
		Name:    str("rt/v1/t.proto"),
		Package: str("rt.v1"),
		Syntax:  str("proto3"),
		Dependency: []string{"j5/ext/v1/annotations.proto", "j5/list/v1/annotations.proto", "buf/validate/validate.proto",
			"j5/types/date/v1/date.proto", "j5/types/decimal/v1/decimal.proto", "j5/types/any/v1/any.proto",
			"google/protobuf/timestamp.proto", "google/protobuf/any.proto", "google/protobuf/duration.proto", "google/protobuf/struct.proto",
			"google/protobuf/empty.proto", "google/protobuf/wrappers.proto", "google/protobuf/field_mask.proto"},
		EnumType: []*descriptorpb.EnumDescriptorProto{
			{Name: str("Color"), Value: []*descriptorpb.EnumValueDescriptorProto{{Name: str("COLOR_UNSPECIFIED"), Number: proto.Int32(0)}, {Name: str("COLOR_RED"), Number: proto.Int32(1)}, {Name: str("COLOR_BLUE"), Number: proto.Int32(2)}}},
			{Name: str("Bare"), Value: []*descriptorpb.EnumValueDescriptorProto{{Name: str("ZERO"), Number: proto.Int32(0)}, {Name: str("ONE"), Number: proto.Int32(1)}}},
		},
		MessageType: []*descriptorpb.DescriptorProto{
			{Name: str("Sub"), Field: []*descriptorpb.FieldDescriptorProto{fld("s_val", 1, stringT), fld("n_val", 2, int64T)}},
			{Name: str("Nothing")},
			{Name: str("Wrap"), OneofDecl: []*descriptorpb.OneofDescriptorProto{{Name: str("type")}}, Field: []*descriptorpb.FieldDescriptorProto{armA, armB}},
		},
	}
}

// matrixCase builds message M with one field of type ft, label lb, annotated with the given annotations.
func matrixCase(ft ftype, lb string, as []annot) *descriptorpb.FileDescriptorProto {
	f := baseFile()
	m := &descriptorpb.DescriptorProto{Name: str("M")}
	fd := fld("f_val", 1, ft)
	switch lb {
	case "optional":
		fd.Proto3Optional = proto.Bool(true)
		fd.OneofIndex = proto.Int32(0)
		m.OneofDecl = []*descriptorpb.OneofDescriptorProto{{Name: str("_f_val")}}
	case "repeated":
		fd.Label = descriptorpb.FieldDescriptorProto_LABEL_REPEATED.Enum()
	case "map":
		entry := &descriptorpb.DescriptorProto{Name: str("FValEntry"), Options: &descriptorpb.MessageOptions{MapEntry: proto.Bool(true)},
			Field: []*descriptorpb.FieldDescriptorProto{fld("key", 1, ftype{"string", descriptorpb.FieldDescriptorProto_TYPE_STRING, ""}), fld("value", 2, ft)}}
		m.NestedType = []*descriptorpb.DescriptorProto{entry}
		fd = fld("f_val", 1, ftype{"entry", descriptorpb.FieldDescriptorProto_TYPE_MESSAGE, ".rt.v1.M.FValEntry"})
		fd.Label = descriptorpb.FieldDescriptorProto_LABEL_REPEATED.Enum()
	}
	if len(as) > 0 {
		fo := &descriptorpb.FieldOptions{}
		for _, a := range as {
			a.set(fo)
		}
		fd.Options = fo
	}
	m.Field = []*descriptorpb.FieldDescriptorProto{fd, fld("tail", 2, ftype{"string", descriptorpb.FieldDescriptorProto_TYPE_STRING, ""})}
	f.MessageType = append(f.MessageType, m)
	return f
}

// structures: message-level options, enum shapes, oneofs, recursion, flatten
// chains and JSON-name collisions.
func structures() map[string]*descriptorpb.FileDescriptorProto {
	out := map[string]*descriptorpb.FileDescriptorProto{}
	stringT := ftype{"string", descriptorpb.FieldDescriptorProto_TYPE_STRING, ""}
	int32T := ftype{"int32", descriptorpb.FieldDescriptorProto_TYPE_INT32, ""}
	msgT := func(n string) ftype { return ftype{"m", descriptorpb.FieldDescriptorProto_TYPE_MESSAGE, ".rt.v1." + n} }
	enumT := func(n string) ftype { return ftype{"e", descriptorpb.FieldDescriptorProto_TYPE_ENUM, ".rt.v1." + n} }
	add := func(name string, msgs []*descriptorpb.DescriptorProto, enums ...*descriptorpb.EnumDescriptorProto) {
		f := baseFile()
		f.MessageType = append(f.MessageType, msgs...)
		f.EnumType = append(f.EnumType, enums...)
		out[name] = f
	}
	msgOpt := func(mo *ext_j5pb.MessageOptions) *descriptorpb.MessageOptions {
		o := &descriptorpb.MessageOptions{}
		proto.SetExtension(o, ext_j5pb.E_Message, mo)
		return o
	}
	psmOpt := func(p *ext_j5pb.PSMOptions) *descriptorpb.MessageOptions {
		o := &descriptorpb.MessageOptions{}
		proto.SetExtension(o, ext_j5pb.E_Psm, p)
		return o
	}
	flat := func(fd *descriptorpb.FieldDescriptorProto) *descriptorpb.FieldDescriptorProto {
		fo := &descriptorpb.FieldOptions{}
		proto.SetExtension(fo, ext_j5pb.E_Field, &ext_j5pb.FieldOptions{Type: &ext_j5pb.FieldOptions_Message{Message: &ext_j5pb.MessageFieldOptions{Flatten: true}}})
		fd.Options = fo
		return fd
	}
	rep := func(fd *descriptorpb.FieldDescriptorProto) *descriptorpb.FieldDescriptorProto {
		fd.Label = descriptorpb.FieldDescriptorProto_LABEL_REPEATED.Enum()
		return fd
	}
	inOneof := func(fd *descriptorpb.FieldDescriptorProto, i int32) *descriptorpb.FieldDescriptorProto {
		fd.OneofIndex = proto.Int32(i)
		return fd
	}
	exposed := func(name string, expose bool) *descriptorpb.OneofDescriptorProto {
		oo := &descriptorpb.OneofOptions{}
		proto.SetExtension(oo, ext_j5pb.E_Oneof, &ext_j5pb.OneofOptions{Expose: expose})
		return &descriptorpb.OneofDescriptorProto{Name: str(name), Options: oo}
	}
	mapOf := func(m *descriptorpb.DescriptorProto, name string, num int32, vt ftype) {
		en := ""
		for _, part := range strings.Split(name, "_") {
			if part != "" {
				en += strings.ToUpper(part[:1]) + part[1:]
			}
		}
		en += "Entry"
		m.NestedType = append(m.NestedType, &descriptorpb.DescriptorProto{Name: str(en), Options: &descriptorpb.MessageOptions{MapEntry: proto.Bool(true)},
			Field: []*descriptorpb.FieldDescriptorProto{fld("key", 1, stringT), fld("value", 2, vt)}})
		m.Field = append(m.Field, rep(fld(name, num, ftype{"entry", descriptorpb.FieldDescriptorProto_TYPE_MESSAGE, ".rt.v1." + m.GetName() + "." + en})))
	}

	// message options
	add("msg-object-option", []*descriptorpb.DescriptorProto{{Name: str("M"), Options: msgOpt(&ext_j5pb.MessageOptions{Type: &ext_j5pb.MessageOptions_Object{Object: &ext_j5pb.ObjectMessageOptions{AnyMember: []string{"thing"}}}}), Field: []*descriptorpb.FieldDescriptorProto{fld("a", 1, stringT)}}})
	add("msg-oneof-option-no-oneof", []*descriptorpb.DescriptorProto{{Name: str("M"), Options: msgOpt(&ext_j5pb.MessageOptions{Type: &ext_j5pb.MessageOptions_Oneof{Oneof: &ext_j5pb.OneofMessageOptions{}}}), Field: []*descriptorpb.FieldDescriptorProto{fld("a", 1, stringT), fld("b", 2, int32T)}}})
	add("msg-oneof-option-scalars", []*descriptorpb.DescriptorProto{{Name: str("M"), Options: msgOpt(&ext_j5pb.MessageOptions{Type: &ext_j5pb.MessageOptions_Oneof{Oneof: &ext_j5pb.OneofMessageOptions{}}}), OneofDecl: []*descriptorpb.OneofDescriptorProto{{Name: str("type")}}, Field: []*descriptorpb.FieldDescriptorProto{inOneof(fld("a", 1, stringT), 0), inOneof(fld("b", 2, int32T), 0)}}})
	add("msg-is-oneof-wrapper-deprecated", []*descriptorpb.DescriptorProto{{Name: str("M"), Options: msgOpt(&ext_j5pb.MessageOptions{IsOneofWrapper: true}), OneofDecl: []*descriptorpb.OneofDescriptorProto{{Name: str("other")}}, Field: []*descriptorpb.FieldDescriptorProto{inOneof(fld("a", 1, msgT("Sub")), 0), fld("b", 2, int32T)}}})
	add("msg-empty-oneof-wrapper", []*descriptorpb.DescriptorProto{{Name: str("M"), Options: msgOpt(&ext_j5pb.MessageOptions{Type: &ext_j5pb.MessageOptions_Oneof{Oneof: &ext_j5pb.OneofMessageOptions{}}})}})
	for _, part := range []string{"Keys", "State", "Event", "Data", "Other"} {
		add("psm-"+part, []*descriptorpb.DescriptorProto{{Name: str("Foo" + part), Options: psmOpt(&ext_j5pb.PSMOptions{EntityName: "foo"}), Field: []*descriptorpb.FieldDescriptorProto{fld("a", 1, stringT)}}})
	}
	add("psm-explicit-part", []*descriptorpb.DescriptorProto{{Name: str("Other"), Options: psmOpt(&ext_j5pb.PSMOptions{EntityName: "foo", EntityPart: schema_j5pb.EntityPart_DATA.Enum()}), Field: []*descriptorpb.FieldDescriptorProto{fld("a", 1, stringT)}}})
	// both markers on one object: part of an entity and member of an any
	{
		both := psmOpt(&ext_j5pb.PSMOptions{EntityName: "foo", EntityPart: schema_j5pb.EntityPart_DATA.Enum()})
		proto.SetExtension(both, ext_j5pb.E_Message, &ext_j5pb.MessageOptions{Type: &ext_j5pb.MessageOptions_Object{Object: &ext_j5pb.ObjectMessageOptions{AnyMember: []string{"thing", "other"}}}})
		add("psm-and-any-member", []*descriptorpb.DescriptorProto{{Name: str("FooData"), Options: both, Field: []*descriptorpb.FieldDescriptorProto{fld("a", 1, stringT)}}})
	}
	add("psm-legacy-keys-field", []*descriptorpb.DescriptorProto{
		{Name: str("FooKeys"), Options: psmOpt(&ext_j5pb.PSMOptions{EntityName: "foo"}), Field: []*descriptorpb.FieldDescriptorProto{fld("id", 1, stringT)}},
		{Name: str("FooThing"), Field: []*descriptorpb.FieldDescriptorProto{fld("keys", 1, msgT("FooKeys"))}},
		{Name: str("FooState"), Field: []*descriptorpb.FieldDescriptorProto{fld("keys", 1, msgT("FooKeys"))}},
	})

	// enums
	ev := func(n string, num int32) *descriptorpb.EnumValueDescriptorProto {
		return &descriptorpb.EnumValueDescriptorProto{Name: str(n), Number: proto.Int32(num)}
	}
	enumOpt := func(eo *ext_j5pb.EnumOptions) *descriptorpb.EnumOptions {
		o := &descriptorpb.EnumOptions{}
		proto.SetExtension(o, ext_j5pb.E_Enum, eo)
		return o
	}
	holder := func(en string) []*descriptorpb.DescriptorProto {
		m := &descriptorpb.DescriptorProto{Name: str("M"), Field: []*descriptorpb.FieldDescriptorProto{fld("e", 1, enumT(en)), rep(fld("es", 2, enumT(en)))}}
		mapOf(m, "em", 3, enumT(en))
		return []*descriptorpb.DescriptorProto{m}
	}
	add("enum-gaps", holder("E"), &descriptorpb.EnumDescriptorProto{Name: str("E"), Value: []*descriptorpb.EnumValueDescriptorProto{ev("E_UNSPECIFIED", 0), ev("E_A", 5), ev("E_B", 2)}})
	add("enum-no-default", holder("E"), &descriptorpb.EnumDescriptorProto{Name: str("E"), Options: enumOpt(&ext_j5pb.EnumOptions{NoDefault: true, InfoFields: []*ext_j5pb.EnumInfoField{{Name: "k", Label: "K"}}}), Value: []*descriptorpb.EnumValueDescriptorProto{ev("E_UNSPECIFIED", 0), ev("E_A", 1)}})
	add("enum-only-unspecified", holder("E"), &descriptorpb.EnumDescriptorProto{Name: str("E"), Value: []*descriptorpb.EnumValueDescriptorProto{ev("E_UNSPECIFIED", 0)}})
	add("enum-no-default-only-unspecified", holder("E"), &descriptorpb.EnumDescriptorProto{Name: str("E"), Options: enumOpt(&ext_j5pb.EnumOptions{NoDefault: true}), Value: []*descriptorpb.EnumValueDescriptorProto{ev("E_UNSPECIFIED", 0)}})
	add("enum-bare-unspecified", holder("E"), &descriptorpb.EnumDescriptorProto{Name: str("E"), Value: []*descriptorpb.EnumValueDescriptorProto{ev("UNSPECIFIED", 0), ev("A", 1)}})
	add("enum-mixed-prefix", holder("E"), &descriptorpb.EnumDescriptorProto{Name: str("E"), Value: []*descriptorpb.EnumValueDescriptorProto{ev("E_UNSPECIFIED", 0), ev("OTHER_A", 1), ev("E_E_B", 2)}})
	add("enum-alias", holder("E"), &descriptorpb.EnumDescriptorProto{Name: str("E"), Options: &descriptorpb.EnumOptions{AllowAlias: proto.Bool(true)}, Value: []*descriptorpb.EnumValueDescriptorProto{ev("E_UNSPECIFIED", 0), ev("E_A", 1), ev("E_ALSO_A", 1)}})
	add("enum-negative", holder("E"), &descriptorpb.EnumDescriptorProto{Name: str("E"), Value: []*descriptorpb.EnumValueDescriptorProto{ev("E_UNSPECIFIED", 0), ev("E_NEG", -1)}})
	add("enum-unused-top-level", []*descriptorpb.DescriptorProto{{Name: str("M"), Field: []*descriptorpb.FieldDescriptorProto{fld("a", 1, stringT)}}}, &descriptorpb.EnumDescriptorProto{Name: str("E"), Value: []*descriptorpb.EnumValueDescriptorProto{ev("NOPE", 0)}})

	// oneofs
	add("oneof-real-not-exposed", []*descriptorpb.DescriptorProto{{Name: str("M"), OneofDecl: []*descriptorpb.OneofDescriptorProto{{Name: str("choice")}}, Field: []*descriptorpb.FieldDescriptorProto{inOneof(fld("a", 1, stringT), 0), inOneof(fld("b", 2, msgT("Sub")), 0), fld("c", 3, int32T)}}})
	add("oneof-exposed-two", []*descriptorpb.DescriptorProto{{Name: str("M"), OneofDecl: []*descriptorpb.OneofDescriptorProto{exposed("choice", true)}, Field: []*descriptorpb.FieldDescriptorProto{inOneof(fld("a", 1, stringT), 0), inOneof(fld("b", 2, msgT("Sub")), 0), fld("c", 3, int32T)}}})
	add("oneof-exposed-one", []*descriptorpb.DescriptorProto{{Name: str("M"), OneofDecl: []*descriptorpb.OneofDescriptorProto{exposed("choice", true)}, Field: []*descriptorpb.FieldDescriptorProto{inOneof(fld("a", 1, stringT), 0)}}})
	add("oneof-expose-false", []*descriptorpb.DescriptorProto{{Name: str("M"), OneofDecl: []*descriptorpb.OneofDescriptorProto{exposed("choice", false)}, Field: []*descriptorpb.FieldDescriptorProto{inOneof(fld("a", 1, stringT), 0)}}})
	add("oneof-two-exposed", []*descriptorpb.DescriptorProto{{Name: str("M"), OneofDecl: []*descriptorpb.OneofDescriptorProto{exposed("one", true), exposed("two", true)}, Field: []*descriptorpb.FieldDescriptorProto{inOneof(fld("a", 1, stringT), 0), inOneof(fld("c", 3, stringT), 0), inOneof(fld("b", 2, stringT), 1)}}})
	add("oneof-exposed-named-type", []*descriptorpb.DescriptorProto{{Name: str("M"), OneofDecl: []*descriptorpb.OneofDescriptorProto{exposed("type", true)}, Field: []*descriptorpb.FieldDescriptorProto{inOneof(fld("a", 1, msgT("Sub")), 0), inOneof(fld("b", 2, msgT("Nothing")), 0)}}})
	add("oneof-exposed-name-collides-with-field", []*descriptorpb.DescriptorProto{{Name: str("M"), OneofDecl: []*descriptorpb.OneofDescriptorProto{exposed("choice", true)}, Field: []*descriptorpb.FieldDescriptorProto{inOneof(fld("a", 1, stringT), 0), fld("choice_", 2, stringT)}}})
	add("oneof-exposed-in-two-messages", []*descriptorpb.DescriptorProto{
		{Name: str("M"), OneofDecl: []*descriptorpb.OneofDescriptorProto{exposed("choice", true)}, Field: []*descriptorpb.FieldDescriptorProto{inOneof(fld("a", 1, stringT), 0)}},
		{Name: str("N"), OneofDecl: []*descriptorpb.OneofDescriptorProto{exposed("choice", true)}, Field: []*descriptorpb.FieldDescriptorProto{inOneof(fld("a", 1, stringT), 0), fld("m", 2, msgT("M"))}},
	})
	add("oneof-wrapper-type-with-extra-field", []*descriptorpb.DescriptorProto{{Name: str("M"), OneofDecl: []*descriptorpb.OneofDescriptorProto{{Name: str("type")}}, Field: []*descriptorpb.FieldDescriptorProto{inOneof(fld("a", 1, msgT("Sub")), 0), fld("extra", 2, stringT)}}})
	add("oneof-wrapper-type-with-scalar-arm", []*descriptorpb.DescriptorProto{{Name: str("M"), OneofDecl: []*descriptorpb.OneofDescriptorProto{{Name: str("type")}}, Field: []*descriptorpb.FieldDescriptorProto{inOneof(fld("a", 1, msgT("Sub")), 0), inOneof(fld("b", 2, stringT), 0)}}})

	// recursion
	add("rec-self-field", []*descriptorpb.DescriptorProto{{Name: str("M"), Field: []*descriptorpb.FieldDescriptorProto{fld("m", 1, msgT("M")), fld("s", 2, stringT)}}})
	add("rec-self-array", []*descriptorpb.DescriptorProto{{Name: str("M"), Field: []*descriptorpb.FieldDescriptorProto{rep(fld("ms", 1, msgT("M")))}}})
	{
		m := &descriptorpb.DescriptorProto{Name: str("M")}
		mapOf(m, "mm", 1, msgT("M"))
		add("rec-self-map", []*descriptorpb.DescriptorProto{m})
	}
	add("rec-self-flatten", []*descriptorpb.DescriptorProto{{Name: str("M"), Field: []*descriptorpb.FieldDescriptorProto{flat(fld("m", 1, msgT("M"))), fld("s", 2, stringT)}}})
	add("rec-mutual", []*descriptorpb.DescriptorProto{
		{Name: str("M"), Field: []*descriptorpb.FieldDescriptorProto{fld("n", 1, msgT("N"))}},
		{Name: str("N"), Field: []*descriptorpb.FieldDescriptorProto{fld("m", 1, msgT("M")), rep(fld("ms", 2, msgT("M")))}},
	})
	add("rec-through-oneof-wrapper", []*descriptorpb.DescriptorProto{
		{Name: str("M"), Field: []*descriptorpb.FieldDescriptorProto{fld("w", 1, msgT("W"))}},
		{Name: str("W"), OneofDecl: []*descriptorpb.OneofDescriptorProto{{Name: str("type")}}, Field: []*descriptorpb.FieldDescriptorProto{inOneof(fld("m", 1, msgT("M")), 0), inOneof(fld("w", 2, msgT("W")), 0)}},
	})
	add("rec-through-exposed-oneof", []*descriptorpb.DescriptorProto{{Name: str("M"), OneofDecl: []*descriptorpb.OneofDescriptorProto{exposed("choice", true)}, Field: []*descriptorpb.FieldDescriptorProto{inOneof(fld("m", 1, msgT("M")), 0), inOneof(fld("s", 2, stringT), 0)}}})
	add("rec-mutual-flatten", []*descriptorpb.DescriptorProto{
		{Name: str("M"), Field: []*descriptorpb.FieldDescriptorProto{flat(fld("n", 1, msgT("N")))}},
		{Name: str("N"), Field: []*descriptorpb.FieldDescriptorProto{flat(fld("m", 1, msgT("M")))}},
	})

	// nested types and flatten chains
	add("nested-types", []*descriptorpb.DescriptorProto{{Name: str("M"),
		NestedType: []*descriptorpb.DescriptorProto{{Name: str("Inner"), Field: []*descriptorpb.FieldDescriptorProto{fld("a", 1, stringT)}, NestedType: []*descriptorpb.DescriptorProto{{Name: str("Deep"), Field: []*descriptorpb.FieldDescriptorProto{fld("b", 1, int32T)}}}}},
		Field: []*descriptorpb.FieldDescriptorProto{fld("i", 1, ftype{"m", descriptorpb.FieldDescriptorProto_TYPE_MESSAGE, ".rt.v1.M.Inner"}), fld("d", 2, ftype{"m", descriptorpb.FieldDescriptorProto_TYPE_MESSAGE, ".rt.v1.M.Inner.Deep"})}},
		{Name: str("Inner"), Field: []*descriptorpb.FieldDescriptorProto{fld("other", 1, int32T)}},
		{Name: str("M_Inner"), Field: []*descriptorpb.FieldDescriptorProto{fld("clash", 1, int32T)}},
	})
	add("flatten-chain-3", []*descriptorpb.DescriptorProto{
		{Name: str("M"), Field: []*descriptorpb.FieldDescriptorProto{flat(fld("a", 1, msgT("A"))), fld("top", 2, stringT)}},
		{Name: str("A"), Field: []*descriptorpb.FieldDescriptorProto{flat(fld("b", 1, msgT("B"))), fld("mid", 2, int32T)}},
		{Name: str("B"), Field: []*descriptorpb.FieldDescriptorProto{flat(fld("c", 1, msgT("C"))), fld("low", 2, int32T)}},
		{Name: str("C"), Field: []*descriptorpb.FieldDescriptorProto{fld("s_leaf", 1, stringT), fld("n_leaf", 2, int32T), fld("b_leaf", 3, ftype{"bool", descriptorpb.FieldDescriptorProto_TYPE_BOOL, ""})}},
	})
	add("flatten-duplicate-json-names", []*descriptorpb.DescriptorProto{
		{Name: str("M"), Field: []*descriptorpb.FieldDescriptorProto{flat(fld("a", 1, msgT("A"))), fld("s_val", 2, stringT)}},
		{Name: str("A"), Field: []*descriptorpb.FieldDescriptorProto{fld("s_val", 1, stringT)}},
	})
	add("flatten-two-same-type", []*descriptorpb.DescriptorProto{
		{Name: str("M"), Field: []*descriptorpb.FieldDescriptorProto{flat(fld("a", 1, msgT("Sub"))), flat(fld("b", 2, msgT("Sub")))}},
	})
	add("flatten-repeated", []*descriptorpb.DescriptorProto{{Name: str("M"), Field: []*descriptorpb.FieldDescriptorProto{rep(flat(fld("a", 1, msgT("Sub"))))}}})
	add("flatten-wrapper", []*descriptorpb.DescriptorProto{{Name: str("M"), Field: []*descriptorpb.FieldDescriptorProto{flat(fld("w", 1, msgT("Wrap")))}}})
	{
		a := fld("user_ID", 1, stringT)
		b := fld("user_id", 2, stringT)
		add("json-name-collision-casing", []*descriptorpb.DescriptorProto{{Name: str("M"), Field: []*descriptorpb.FieldDescriptorProto{a, b}}})
		c := fld("one", 1, stringT)
		c.JsonName = str("same")
		d := fld("two", 2, int32T)
		d.JsonName = str("same2")
		add("json-name-explicit", []*descriptorpb.DescriptorProto{{Name: str("M"), Field: []*descriptorpb.FieldDescriptorProto{c, d}}})
		m := &descriptorpb.DescriptorProto{Name: str("M")}
		mapOf(m, "user_ID", 1, stringT)
		m.Field = append(m.Field, fld("user_id", 2, stringT))
		add("json-name-map-vs-field", []*descriptorpb.DescriptorProto{m})
	}
	// the members of a oneof wrapper collide in their property names
	add("oneof-wrapper-name-collision-casing", []*descriptorpb.DescriptorProto{{Name: str("M"), OneofDecl: []*descriptorpb.OneofDescriptorProto{{Name: str("type")}},
		Field: []*descriptorpb.FieldDescriptorProto{inOneof(fld("user_ID", 1, msgT("Sub")), 0), inOneof(fld("user_id", 2, msgT("Nothing")), 0)}}})
	add("oneof-exposed-name-collision-casing", []*descriptorpb.DescriptorProto{{Name: str("M"), OneofDecl: []*descriptorpb.OneofDescriptorProto{exposed("choice", true)},
		Field: []*descriptorpb.FieldDescriptorProto{inOneof(fld("user_ID", 1, stringT), 0), inOneof(fld("user_id", 2, stringT), 0)}}})
	{
		a := inOneof(fld("one", 1, msgT("Sub")), 0)
		a.JsonName = str("same")
		b := inOneof(fld("two", 2, msgT("Nothing")), 0)
		b.JsonName = str("same")
		add("oneof-wrapper-json-name-explicit-same", []*descriptorpb.DescriptorProto{{Name: str("M"), OneofDecl: []*descriptorpb.OneofDescriptorProto{{Name: str("type")}}, Field: []*descriptorpb.FieldDescriptorProto{a, b}}})
	}
	add("deep-same-suffix", []*descriptorpb.DescriptorProto{
		{Name: str("Order"), NestedType: []*descriptorpb.DescriptorProto{{Name: str("Item"), NestedType: []*descriptorpb.DescriptorProto{{Name: str("Detail"), Field: []*descriptorpb.FieldDescriptorProto{fld("a", 1, stringT)}}}, Field: []*descriptorpb.FieldDescriptorProto{fld("d", 1, ftype{"m", descriptorpb.FieldDescriptorProto_TYPE_MESSAGE, ".rt.v1.Order.Item.Detail"})}}},
			Field: []*descriptorpb.FieldDescriptorProto{fld("i", 1, ftype{"m", descriptorpb.FieldDescriptorProto_TYPE_MESSAGE, ".rt.v1.Order.Item"})}},
		{Name: str("Item"), NestedType: []*descriptorpb.DescriptorProto{{Name: str("Detail"), Field: []*descriptorpb.FieldDescriptorProto{fld("other", 1, int32T), fld("more", 2, int32T)}}},
			Field: []*descriptorpb.FieldDescriptorProto{fld("d", 1, ftype{"m", descriptorpb.FieldDescriptorProto_TYPE_MESSAGE, ".rt.v1.Item.Detail"})}},
	})
	// a proto oneof named "type" with message members next to an ordinary field: an object, not a wrapper
	add("oneof-type-plus-extra-field", []*descriptorpb.DescriptorProto{{Name: str("M"), OneofDecl: []*descriptorpb.OneofDescriptorProto{{Name: str("type")}},
		Field: []*descriptorpb.FieldDescriptorProto{inOneof(fld("circle", 1, msgT("Sub")), 0), inOneof(fld("square", 2, msgT("Nothing")), 0), fld("note", 3, stringT)}}})
	add("oneof-type-plus-extra-message-field", []*descriptorpb.DescriptorProto{{Name: str("M"), OneofDecl: []*descriptorpb.OneofDescriptorProto{{Name: str("type")}},
		Field: []*descriptorpb.FieldDescriptorProto{fld("extra", 3, msgT("Sub")), inOneof(fld("circle", 1, msgT("Sub")), 0), inOneof(fld("square", 2, msgT("Nothing")), 0)}}})
	// the same property name at the ends of a two-level flatten chain
	add("flatten-chain-duplicate-name-two-levels", []*descriptorpb.DescriptorProto{
		{Name: str("M"), Field: []*descriptorpb.FieldDescriptorProto{fld("name", 1, stringT), flat(fld("mid", 2, msgT("Mid")))}},
		{Name: str("Mid"), Field: []*descriptorpb.FieldDescriptorProto{fld("other", 1, stringT), flat(fld("inner", 2, msgT("Inner")))}},
		{Name: str("Inner"), Field: []*descriptorpb.FieldDescriptorProto{fld("name", 1, stringT)}},
	})
	add("flatten-chain-duplicate-name-siblings", []*descriptorpb.DescriptorProto{
		{Name: str("M"), Field: []*descriptorpb.FieldDescriptorProto{flat(fld("left", 1, msgT("Mid"))), flat(fld("right", 2, msgT("Mid2")))}},
		{Name: str("Mid"), Field: []*descriptorpb.FieldDescriptorProto{flat(fld("inner", 1, msgT("Inner")))}},
		{Name: str("Mid2"), Field: []*descriptorpb.FieldDescriptorProto{fld("name", 1, stringT)}},
		{Name: str("Inner"), Field: []*descriptorpb.FieldDescriptorProto{fld("name", 1, stringT)}},
	})
	// an exposed oneof declared by a message that is flattened into its parent; the parent's own
	// field numbers overlap the members' numbers with other kinds, or with the same kind
	add("oneof-exposed-below-flatten", []*descriptorpb.DescriptorProto{
		{Name: str("M"), Field: []*descriptorpb.FieldDescriptorProto{flat(fld("inner", 1, msgT("Inner"))), fld("other", 2, int32T)}},
		{Name: str("Inner"), OneofDecl: []*descriptorpb.OneofDescriptorProto{exposed("choice", true)}, Field: []*descriptorpb.FieldDescriptorProto{inOneof(fld("a", 1, stringT), 0), inOneof(fld("b", 2, msgT("Sub")), 0), fld("label", 3, stringT)}},
	})
	add("oneof-exposed-below-flatten-same-numbers", []*descriptorpb.DescriptorProto{
		{Name: str("M"), Field: []*descriptorpb.FieldDescriptorProto{fld("title", 1, stringT), flat(fld("inner", 4, msgT("Inner")))}},
		{Name: str("Inner"), OneofDecl: []*descriptorpb.OneofDescriptorProto{exposed("choice", true)}, Field: []*descriptorpb.FieldDescriptorProto{inOneof(fld("a", 1, stringT), 0), fld("label", 3, stringT)}},
	})
	// reference cycles in which one member does not reflect (two flattened fields with the same
	// member names): the partner is looked up after, and before, the failing one
	for _, order := range []string{"failing-first", "failing-last"} {
		bad := &descriptorpb.DescriptorProto{Name: str("M"), Field: []*descriptorpb.FieldDescriptorProto{fld("b", 1, msgT("B")), flat(fld("x", 2, msgT("Sub"))), flat(fld("y", 3, msgT("Sub")))}}
		partner := &descriptorpb.DescriptorProto{Name: str("B"), Field: []*descriptorpb.FieldDescriptorProto{fld("m", 1, msgT("M")), fld("s", 2, stringT)}}
		user := &descriptorpb.DescriptorProto{Name: str("User"), Field: []*descriptorpb.FieldDescriptorProto{fld("b", 1, msgT("B"))}}
		if order == "failing-first" {
			add("cycle-with-failing-member-"+order, []*descriptorpb.DescriptorProto{bad, partner, user})
		} else {
			add("cycle-with-failing-member-"+order, []*descriptorpb.DescriptorProto{user, partner, bad})
		}
	}
	// every rule / list rule / info carrier the reflection can populate
	{
		opt := func(fd *descriptorpb.FieldDescriptorProto, as ...annot) *descriptorpb.FieldDescriptorProto {
			fo := &descriptorpb.FieldOptions{}
			for _, a := range as {
				a.set(fo)
			}
			fd.Options = fo
			return fd
		}
		tsT := ftype{"ts", descriptorpb.FieldDescriptorProto_TYPE_MESSAGE, ".google.protobuf.Timestamp"}
		dateT := ftype{"date", descriptorpb.FieldDescriptorProto_TYPE_MESSAGE, ".j5.types.date.v1.Date"}
		decT := ftype{"decimal", descriptorpb.FieldDescriptorProto_TYPE_MESSAGE, ".j5.types.decimal.v1.Decimal"}
		anyT := ftype{"any", descriptorpb.FieldDescriptorProto_TYPE_MESSAGE, ".j5.types.any.v1.Any"}
		tv := func(sec int64) *timestamppb.Timestamp { return &timestamppb.Timestamp{Seconds: sec, Nanos: 5} }
		m := &descriptorpb.DescriptorProto{Name: str("M"), Field: []*descriptorpb.FieldDescriptorProto{
			opt(fld("ts_excl", 1, tsT), val("ts", &validate.FieldConstraints{Type: &validate.FieldConstraints_Timestamp{Timestamp: &validate.TimestampRules{GreaterThan: &validate.TimestampRules_Gt{Gt: tv(100)}, LessThan: &validate.TimestampRules_Lt{Lt: tv(200)}}}}),
				lst("ts", &list_j5pb.FieldConstraint{Type: &list_j5pb.FieldConstraint_Timestamp{Timestamp: &list_j5pb.TimestampRules{Filtering: filt, Sorting: srt}}})),
			opt(fld("ts_incl", 2, tsT), val("ts", &validate.FieldConstraints{Type: &validate.FieldConstraints_Timestamp{Timestamp: &validate.TimestampRules{GreaterThan: &validate.TimestampRules_Gte{Gte: tv(100)}, LessThan: &validate.TimestampRules_Lte{Lte: tv(200)}}}})),
			opt(fld("date_val", 3, dateT), j5ext("date", &ext_j5pb.FieldOptions{Type: &ext_j5pb.FieldOptions_Date{Date: &ext_j5pb.DateField{Rules: &ext_j5pb.DateField_Rules{Minimum: P("2000-01-01"), Maximum: P("2030-12-31"), ExclusiveMinimum: P(true), ExclusiveMaximum: P(true)}}}}),
				lst("date", &list_j5pb.FieldConstraint{Type: &list_j5pb.FieldConstraint_Date{Date: &list_j5pb.DateRules{Filtering: filt}}})),
			opt(fld("dec_val", 4, decT), j5ext("decimal", &ext_j5pb.FieldOptions{Type: &ext_j5pb.FieldOptions_Decimal{Decimal: &ext_j5pb.DecimalField{Rules: &ext_j5pb.DecimalField_Rules{Minimum: P("1.5"), Maximum: P("10"), ExclusiveMinimum: P(true), ExclusiveMaximum: P(false)}}}}),
				lst("decimal", &list_j5pb.FieldConstraint{Type: &list_j5pb.FieldConstraint_Decimal{Decimal: &list_j5pb.DecimalRules{Filtering: filt, Sorting: srt}}})),
			opt(fld("pick", 5, msgT("Wrap")), j5ext("oneof", &ext_j5pb.FieldOptions{Type: &ext_j5pb.FieldOptions_Oneof{Oneof: &ext_j5pb.OneofField{}}}),
				lst("oneof", &list_j5pb.FieldConstraint{Type: &list_j5pb.FieldConstraint_Oneof{Oneof: &list_j5pb.OneofRules{Filtering: filt}}})),
			opt(fld("anything", 6, anyT), j5ext("any", &ext_j5pb.FieldOptions{Type: &ext_j5pb.FieldOptions_Any{Any: &ext_j5pb.AnyField{OnlyDefined: true, Types: []string{"rt.v1.Sub"}}}}),
				lst("any", &list_j5pb.FieldConstraint{Type: &list_j5pb.FieldConstraint_Any{Any: &list_j5pb.AnyRules{Filtering: filt}}})),
			opt(fld("kind", 7, enumT("E")), lst("enum", &list_j5pb.FieldConstraint{Type: &list_j5pb.FieldConstraint_Enum{Enum: &list_j5pb.EnumRules{Filtering: filt}}}),
				val("enum", &validate.FieldConstraints{Type: &validate.FieldConstraints_Enum{Enum: &validate.EnumRules{DefinedOnly: P(true), In: []int32{1, 2}}}})),
			opt(fld("big", 8, ftype{"uint64", descriptorpb.FieldDescriptorProto_TYPE_UINT64, ""}), lst("uint64", &list_j5pb.FieldConstraint{Type: &list_j5pb.FieldConstraint_Uint64{Uint64: &list_j5pb.IntegerRules{Filtering: filt, Sorting: srt}}})),
			opt(fld("tenant_id", 9, stringT), annot{"psm-key", func(o *descriptorpb.FieldOptions) {
				proto.SetExtension(o, ext_j5pb.E_Key, &ext_j5pb.PSMKeyFieldOptions{PrimaryKey: true, TenantType: P("org")})
			}}),
			opt(fld("other_id", 10, stringT), annot{"psm-key", func(o *descriptorpb.FieldOptions) {
				proto.SetExtension(o, ext_j5pb.E_Key, &ext_j5pb.PSMKeyFieldOptions{ForeignKey: &schema_j5pb.EntityRef{Package: "other.v1", Entity: "thing"}})
			}}),
		}}
		mapOf(m, "pairs", 11, stringT)
		opt(m.Field[len(m.Field)-1], val("map", &validate.FieldConstraints{Type: &validate.FieldConstraints_Map{Map: &validate.MapRules{MinPairs: P(uint64(1)), MaxPairs: P(uint64(3))}}}),
			j5ext("map", &ext_j5pb.FieldOptions{Type: &ext_j5pb.FieldOptions_Map{Map: &ext_j5pb.MapField{SingleForm: P("pair")}}}))
		evo := func(n string, num int32, desc string, info map[string]string) *descriptorpb.EnumValueDescriptorProto {
			o := &descriptorpb.EnumValueOptions{}
			proto.SetExtension(o, ext_j5pb.E_EnumValue, &ext_j5pb.EnumValueOptions{Description: desc, Info: info})
			return &descriptorpb.EnumValueDescriptorProto{Name: str(n), Number: proto.Int32(num), Options: o}
		}
		add("rich-rules", []*descriptorpb.DescriptorProto{m}, &descriptorpb.EnumDescriptorProto{Name: str("E"),
			Options: enumOpt(&ext_j5pb.EnumOptions{InfoFields: []*ext_j5pb.EnumInfoField{{Name: "k", Label: "K", Description: "the k"}, {Name: "other", Label: "O"}}}),
			Value:   []*descriptorpb.EnumValueDescriptorProto{ev("E_UNSPECIFIED", 0), evo("E_A", 1, "first", map[string]string{"k": "v", "other": "w"}), evo("E_B", 2, "", map[string]string{"k": "z"})}})
	}
	return out
}
