// C03: decoding is exact or rejected: no silent loss, coercion or ambiguity.
package main

import (
	"encoding/base64"
	"fmt"
	"net/url"
	"strconv"
	"strings"
	"time"

	"github.com/pentops/j5/internal/zzverif/gbridge"
	"github.com/pentops/j5/internal/zzverif/gj5s"
	"github.com/pentops/j5/internal/zzverif/gpb"
	"github.com/pentops/j5/internal/zzverif/vk"
	"github.com/pentops/j5/lib/j5codec"
	"google.golang.org/protobuf/encoding/prototext"
	"google.golang.org/protobuf/types/dynamicpb"
)

func main() {
	vk.Main(&vk.Check{
		ID:   "C03",
		Rule: "base corpus: the canonical document (reference encoder) of every message of every single-field schema (kind x label x context) and of a slice of the pair schemas; accepting direction: the canonical document, white space around every token, reversed member order (\"!type\" after the arm), explicit null for every absent member, every documented alternate spelling at every leaf (quoted<->bare numbers, 4 base64 forms, enum prefix, timestamp offsets), scalars as url.Values; rejecting direction: exactly one fault from the listed classes at every node; a case = (schema, message, variation or fault, position); non-trivial = document with at least one member",
		Assumptions: []string{
			"'documented spelling variations' are those of README.md (quoted/bare numbers incl. decimals, std/url base64 with/without padding) and of the property text (enum prefix, RFC 3339 at any offset, member order, white space, explicit null, url.Values for scalars)",
			"single variations and single faults only in the quick tier",
		},
		Bounds:         map[string]any{"kinds": len(gpb.AllKinds()), "contexts": gpb.Contexts},
		Isolate:        true,
		QuickBudget:    900,
		ThoroughBudget: 3600,
		Run:            run,
	})
}

type fault struct {
	name string
	text string
}

const maxI32, minI32 = "2147483648", "-2147483649"

func wrongTypes(except string) []fault {
	all := []fault{{"string", `"x"`}, {"number", `1`}, {"bool", `true`}, {"object", `{}`}, {"array", `[]`}, {"array-of-value", `[1]`}, {"object-with-member", `{"a":1}`}}
	var out []fault
	for _, f := range all {
		if !strings.Contains(except, f.name) {
			out = append(out, fault{"wrong-type-" + f.name, f.text})
		}
	}
	return out
}

// faultsForLeaf: values that cannot be represented in a field of this kind.
func faultsForLeaf(k gpb.Kind) []fault {
	switch k {
	case gpb.KString, gpb.KKey, gpb.KKeyID62, gpb.KKeyUUID:
		return wrongTypes("string")
	case gpb.KBool:
		return append(wrongTypes("bool"), fault{"quoted-bool", `"true"`})
	case gpb.KInt32, gpb.KSint32:
		return append(wrongTypes("number,string"), fault{"unparsable", `"abc"`}, fault{"fraction", `1.5`}, fault{"quoted-fraction", `"1.5"`}, fault{"huge", `1e400`}, fault{"above-max", maxI32}, fault{"quoted-above-max", `"` + maxI32 + `"`}, fault{"below-min", minI32}, fault{"empty-string", `""`}, fault{"trailing-garbage", `"12x"`})
	case gpb.KUint32:
		return append(wrongTypes("number,string"), fault{"unparsable", `"abc"`}, fault{"fraction", `1.5`}, fault{"negative", `-1`}, fault{"quoted-negative", `"-1"`}, fault{"above-max", `4294967296`}, fault{"quoted-above-max", `"4294967296"`}, fault{"empty-string", `""`})
	case gpb.KInt64, gpb.KSint64:
		return append(wrongTypes("number,string"), fault{"unparsable", `"abc"`}, fault{"fraction", `1.5`}, fault{"quoted-fraction", `"1.5"`}, fault{"above-max", `9223372036854775808`}, fault{"quoted-above-max", `"9223372036854775808"`}, fault{"below-min", `-9223372036854775809`}, fault{"quoted-below-min", `"-9223372036854775809"`}, fault{"empty-string", `""`}, fault{"huge", `1e400`})
	case gpb.KUint64:
		return append(wrongTypes("number,string"), fault{"unparsable", `"abc"`}, fault{"fraction", `1.5`}, fault{"negative", `-1`}, fault{"quoted-negative", `"-1"`}, fault{"above-max", `18446744073709551616`}, fault{"quoted-above-max", `"18446744073709551616"`}, fault{"empty-string", `""`})
	case gpb.KFloat:
		return append(wrongTypes("number,string"), fault{"unparsable", `"abc"`}, fault{"huge", `1e400`}, fault{"float32-overflow", `1e39`}, fault{"quoted-float32-overflow", `"1e39"`}, fault{"empty-string", `""`}, fault{"quoted-infinity", `"Infinity"`}, fault{"quoted-negative-inf", `"-inf"`}, fault{"quoted-nan", `"NaN"`})
	case gpb.KDouble:
		return append(wrongTypes("number,string"), fault{"unparsable", `"abc"`}, fault{"huge", `1e400`}, fault{"quoted-huge", `"1e400"`}, fault{"empty-string", `""`}, fault{"quoted-infinity", `"Infinity"`}, fault{"quoted-negative-inf", `"-inf"`}, fault{"quoted-nan", `"NaN"`})
	case gpb.KBytes:
		return append(wrongTypes("string"), fault{"invalid-base64-chars", `"!!!!"`}, fault{"invalid-base64-length", `"a"`}, fault{"invalid-base64-mixed", `"ab=c"`})
	case gpb.KDate:
		return append(wrongTypes("string"), fault{"malformed", `"abc"`}, fault{"month-13", `"2024-13-01"`}, fault{"day-30-feb", `"2024-02-30"`}, fault{"day-0", `"2024-01-00"`}, fault{"two-parts", `"2024-01"`}, fault{"timestamp", `"2024-01-01T00:00:00Z"`}, fault{"empty-string", `""`}, fault{"four-parts", `"2024-01-01-01"`})
	case gpb.KDecimal:
		return append(wrongTypes("string,number"), fault{"unparsable", `"abc"`}, fault{"two-dots", `"1.2.3"`}, fault{"empty-string", `""`})
	case gpb.KTimestamp:
		return append(wrongTypes("string"), fault{"malformed", `"abc"`}, fault{"date-only", `"2024-01-01"`}, fault{"hour-25", `"2024-01-01T25:00:00Z"`}, fault{"no-zone", `"2024-01-01T00:00:00"`}, fault{"empty-string", `""`}, fault{"month-13", `"2024-13-01T00:00:00Z"`})
	case gpb.KEnum:
		return append(wrongTypes("string"), fault{"unknown-name", `"NOPE"`}, fault{"empty-string", `""`}, fault{"wrong-case", `"red"`}, fault{"prefix-only", `"COLOR_"`})
	}
	return nil
}

func run(r *vk.Runner) {
	cases := gpb.SingleFieldCases()
	pairs := gpb.PairCases()
	for i, p := range pairs {
		if i%5 == 0 || !r.Quick() {
			cases = append(cases, p)
		}
	}
	// the same for schemas the j5s compiler produced (single-field programs; all bridged programs in the thorough tier)
	gj5s.Silence()
	if r.Quick() {
		cases = append(cases, gbridge.Cases(gj5s.SingleFieldCases())...)
	} else {
		cases = append(cases, gbridge.Cases(gbridge.Programs())...)
	}
	for _, c := range cases {
		if r.Stopped() {
			return
		}
		if err := c.Schema.Build(); err != nil {
			panic(fmt.Sprintf("harness: schema %s does not build: %v", c.ID, err))
		}
		kind := "pair"
		if c.Under != nil {
			kind = c.Under.Kind.String()
		}
		if strings.HasPrefix(c.ID, "j5s/") {
			kind = "j5s:" + kind
		}
		// Any payloads are opaque JSON: the exactness oracle does not apply to their inside
		anyKind := c.Under != nil && (c.Under.Kind == gpb.KJ5Any || c.Under.Kind == gpb.KPbAny)
		opts := []j5codec.CodecOption{j5codec.WithResolver(gpb.Resolver{S: c.Schema})}
		if c.Under != nil && c.Under.Kind == gpb.KPbAny {
			opts = append(opts, j5codec.WithProtoToAny())
		}
		codec := j5codec.NewCodec(opts...)
		mvs := gpb.MsgValues(c.Schema.Root)
		for i, mv := range mvs {
			mv := mv
			sp := gpb.RefEncode(mv)
			nodes := gpb.Nodes(sp)
			orig := c.Schema.NewMessage(mv)
			otxt := prototext.MarshalOptions{}.Format(orig)
			base := fmt.Sprintf("%s#%d", c.ID, i)

			// the message the canonical spelling decodes to (computed lazily, once per message)
			var canonBack *dynamicpb.Message
			canon := func() *dynamicpb.Message {
				if canonBack == nil {
					canonBack = dynamicpb.NewMessage(orig.Descriptor())
					if err := codec.JSONToProto([]byte(gpb.Render(sp, &gpb.RenderOpts{Target: -1})), canonBack); err != nil {
						canonBack = dynamicpb.NewMessage(orig.Descriptor())
					}
				}
				return canonBack
			}
			accept := func(id, vname string, doc string) {
				r.Do(base+":"+id, func(t *vk.T) {
					t.Coord("accept|" + vname + "|kind=" + kind)
					t.SigCoord("decode|kind=" + kind)
					if len(sp.Mem) > 0 {
						t.Nontrivial()
					}
					back := dynamicpb.NewMessage(orig.Descriptor())
					err := codec.JSONToProto([]byte(doc), back)
					t.Step()
					if err != nil {
						t.Violation("documented-spelling-rejected|"+vname+"|kind="+kind+"|"+vk.ErrTail(err), fmt.Sprintf("a documented spelling is rejected: %v\nschema %s\nvariation %s\ndocument: %s\nmessage: %s", err, c.ID, vname, doc, otxt), doc, otxt, err.Error())
						return
					}
					if !gpb.EqualNormalized(orig, back, c.Schema.Root, c.Schema) {
						btxt := prototext.MarshalOptions{}.Format(back)
						t.Violation("spelling-decodes-differently|"+vname+"|kind="+kind, fmt.Sprintf("an alternate spelling decodes to a different message\nschema %s\nvariation %s\ndocument: %s\nexpected: %s\ndecoded:  %s", c.ID, vname, doc, otxt, btxt), doc, otxt, btxt)
						return
					}
					if vname != "canonical" && !gpb.EqualStrict(canon(), back, c.Schema.Root, c.Schema) {
						btxt := prototext.MarshalOptions{}.Format(back)
						ctxt := prototext.MarshalOptions{}.Format(canon())
						t.Violation("spelling-differs-from-canonical|"+vname+"|kind="+kind, fmt.Sprintf("an alternate spelling does not produce the same message as the canonical spelling\nschema %s\nvariation %s\ndocument: %s\ncanonical decodes to: %s\nthis decodes to:      %s", c.ID, vname, doc, ctxt, btxt), doc, ctxt, btxt)
						return
					}
					t.Class("accepted-equal")
					if i%11 == 5 {
						t.Sample(map[string]string{"schema": c.ID, "variation": vname, "document": doc})
					}
				})
			}
			reject := func(id, fname string, doc string, nodeKind string) {
				r.Do(base+":"+id, func(t *vk.T) {
					t.Coord("reject|" + fname + "|kind=" + nodeKind)
					t.SigCoord("decode|kind=" + nodeKind)
					t.Nontrivial()
					back := dynamicpb.NewMessage(orig.Descriptor())
					err := codec.JSONToProto([]byte(doc), back)
					t.Step()
					if err == nil {
						btxt := prototext.MarshalOptions{}.Format(back)
						t.Violation("fault-accepted|"+fname+"|kind="+nodeKind, fmt.Sprintf("a document with one unrepresentable member is accepted\nschema %s\nfault %s\ndocument: %s\ndecoded as: %s", c.ID, fname, doc, btxt), doc, "error", btxt)
						return
					}
					t.Class("rejected")
					if i%13 == 7 {
						t.Sample(map[string]string{"schema": c.ID, "fault": fname, "document": doc, "error": err.Error()})
					}
				})
			}

			// ---- accepting direction ----
			if !r.Mine() {
				// cheap skip of whole message when no case of it belongs to this worker is not
				// possible (cases are interleaved); fall through.
			}
			pbAny := c.Under != nil && c.Under.Kind == gpb.KPbAny
			if !pbAny {
				accept("canonical", "canonical", gpb.Render(sp, &gpb.RenderOpts{Target: -1}))
			}
			if !anyKind {
				accept("ws", "whitespace", gpb.Render(sp, &gpb.RenderOpts{Target: -1, WS: true}))
				accept("rev", "reordered", gpb.Render(sp, &gpb.RenderOpts{Target: -1, Reverse: true}))
			}
			if !pbAny {
				accept("nulls", "explicit-nulls", gpb.Render(sp, &gpb.RenderOpts{Target: -1, Nulls: true}))
			}
			for ni, n := range nodes {
				if n.T != gpb.SLeaf || pbAny {
					continue
				}
				for _, v := range gpb.LeafVariants(n.Leaf) {
					accept(fmt.Sprintf("n%d:%s", ni, v), v, gpb.Render(sp, &gpb.RenderOpts{Target: ni, Variant: v}))
				}
			}
			// query parameters
			if q, ok := toQuery(sp); ok && len(q) > 0 {
				r.Do(base+":query", func(t *vk.T) {
					t.Coord("accept|query|kind=" + kind)
					t.Nontrivial()
					back := dynamicpb.NewMessage(orig.Descriptor())
					err := codec.QueryToProto(q, back)
					t.Step()
					if err != nil {
						t.Violation("documented-spelling-rejected|query|kind="+kind+"|"+vk.ErrTail(err), fmt.Sprintf("scalar values supplied as URL query parameters are rejected: %v\nschema %s\nquery: %v\nmessage: %s", err, c.ID, q, otxt), q, otxt, err.Error())
						return
					}
					if !gpb.EqualNormalized(orig, back, c.Schema.Root, c.Schema) {
						btxt := prototext.MarshalOptions{}.Format(back)
						t.Violation("spelling-decodes-differently|query|kind="+kind, fmt.Sprintf("query parameters decode to a different message\nschema %s\nquery: %v\nexpected: %s\ndecoded:  %s", c.ID, q, otxt, btxt), q, otxt, btxt)
						return
					}
					t.Class("accepted-equal")
				})
				// fault: a second member of a oneof the query already addresses
				for si, site := range querySites {
					for _, g := range site.arms {
						if g.JSON == site.chosen {
							continue
						}
						key, val := site.prefix+g.JSON, ""
						switch {
						case g.Kind == gpb.KString:
							val = "x"
						case g.Kind == gpb.KBool:
							val = "true"
						case g.Kind == gpb.KInt64 || g.Kind == gpb.KInt32:
							val = "1"
						case g.Kind == gpb.KObject && g.Msg != nil && len(g.Msg.Fields) > 0 && (g.Msg.Fields[0].Kind == gpb.KString || g.Msg.Fields[0].Kind == gpb.KBool) && g.Msg.Fields[0].Label == gpb.Single:
							key += "." + g.Msg.Fields[0].JSON
							val = map[bool]string{true: "x", false: "true"}[g.Msg.Fields[0].Kind == gpb.KString]
						default:
							continue
						}
						q2 := url.Values{}
						for k, v := range q {
							q2[k] = v
						}
						q2[key] = []string{val}
						r.Do(fmt.Sprintf("%s:query-second-arm:%d:%s", base, si, g.JSON), func(t *vk.T) {
							t.Coord("reject|query|kind=" + kind)
							t.Nontrivial()
							back := dynamicpb.NewMessage(orig.Descriptor())
							err := codec.QueryToProto(q2, back)
							t.Step()
							if err == nil {
								btxt := prototext.MarshalOptions{}.Format(back)
								t.Violation("fault-accepted|query-second-oneof-member|kind="+kind, fmt.Sprintf("query parameters that address two members of one oneof are accepted\nschema %s\nquery: %v\ndecoded as: %s", c.ID, q2, btxt), q2, "error", btxt)
								return
							}
							t.Class("rejected")
						})
					}
				}
			}

			// ---- rejecting direction: one fault at every node ----
			for ni, n := range nodes {
				var fs []fault
				nodeKind := ""
				switch n.T {
				case gpb.SLeaf:
					fs = faultsForLeaf(n.Leaf.Kind)
					nodeKind = n.Leaf.Kind.String()
				case gpb.SObj:
					nodeKind = "object"
					if ni > 0 {
						fs = wrongTypes("object")
					}
				case gpb.SOneof:
					nodeKind = "oneof"
					if ni > 0 {
						fs = wrongTypes("object")
					}
				case gpb.SArr:
					nodeKind = "array"
					fs = []fault{{"wrong-type-object", `{}`}, {"wrong-type-string", `"x"`}, {"wrong-type-number", `1`}, {"wrong-type-bool", `true`}}
				case gpb.SMap:
					nodeKind = "map"
					fs = []fault{{"wrong-type-array", `[]`}, {"wrong-type-string", `"x"`}, {"wrong-type-number", `1`}, {"wrong-type-bool", `true`}}
				case gpb.SAny:
					nodeKind = "any"
					fs = []fault{{"wrong-type-array", `[]`}, {"wrong-type-string", `"x"`}, {"wrong-type-number", `1`}, {"no-type", `{"value":{}}`}, {"no-value", `{"!type":"vt.v1.Sub"}`}, {"type-not-string", `{"!type":1,"value":{}}`}, {"unknown-key-for-value", `{"!type":"vt.v1.Sub","bogus":{}}`}, {"unknown-key-after-value", `{"!type":"vt.v1.Sub","value":{},"extra":1}`}, {"two-values", `{"!type":"vt.v1.Sub","value":{},"value":{"sVal":"x"}}`}}
				}
				for _, f := range fs {
					reject(fmt.Sprintf("n%d:%s", ni, f.name), f.name, gpb.Render(sp, &gpb.RenderOpts{Target: ni, Variant: "raw", Raw: f.text}), nodeKind)
				}
				switch n.T {
				case gpb.SObj:
					reject(fmt.Sprintf("n%d:unknown-key", ni), "unknown-key", gpb.Render(sp, &gpb.RenderOpts{Target: ni, Variant: "addmember", Raw: `"zzUnknown":1`}), "object")
					reject(fmt.Sprintf("n%d:unknown-key-null", ni), "unknown-key-null", gpb.Render(sp, &gpb.RenderOpts{Target: ni, Variant: "addmember", Raw: `"zzUnknown":null`}), "object")
					// a second member of a proto oneof that is not exposed: the members are ordinary properties
					// of the object, but the message can hold only one of them, so one of the two would be lost
					if n.M != nil {
						have := map[string]bool{}
						for _, m := range n.Mem {
							have[m.K] = true
						}
						for _, f := range n.M.Fields {
							if f.PlainGroup == "" || !have[f.JSON] {
								continue
							}
							for _, g := range n.M.Fields {
								if g.PlainGroup == f.PlainGroup && g != f && !have[g.JSON] && (g.Kind == gpb.KObject) {
									reject(fmt.Sprintf("n%d:second-member-of-plain-oneof:%s", ni, g.JSON), "second-member-of-plain-oneof", gpb.Render(sp, &gpb.RenderOpts{Target: ni, Variant: "addmember", Raw: strconv.Quote(g.JSON) + `:{}`}), "object")
								}
							}
						}
					}
				case gpb.SOneof:
					if len(n.Mem) == 1 {
						arm := n.Mem[0]
						other, otherDoc := otherArm(n, arm.K)
						armDoc := gpb.Render(arm.V, &gpb.RenderOpts{Target: -1})
						if other != "" {
							reject(fmt.Sprintf("n%d:two-keys", ni), "oneof-two-keys", gpb.Render(sp, &gpb.RenderOpts{Target: ni, Variant: "raw", Raw: `{"!type":` + strconv.Quote(arm.K) + `,` + strconv.Quote(arm.K) + `:` + armDoc + `,` + strconv.Quote(other) + `:` + otherDoc + `}`}), "oneof")
							reject(fmt.Sprintf("n%d:two-keys-no-type", ni), "oneof-two-keys-no-type", gpb.Render(sp, &gpb.RenderOpts{Target: ni, Variant: "raw", Raw: `{` + strconv.Quote(arm.K) + `:` + armDoc + `,` + strconv.Quote(other) + `:` + otherDoc + `}`}), "oneof")
							reject(fmt.Sprintf("n%d:type-contradicts", ni), "oneof-type-contradicts-key", gpb.Render(sp, &gpb.RenderOpts{Target: ni, Variant: "raw", Raw: `{"!type":` + strconv.Quote(other) + `,` + strconv.Quote(arm.K) + `:` + armDoc + `}`}), "oneof")
							reject(fmt.Sprintf("n%d:type-contradicts-after", ni), "oneof-type-contradicts-key-type-last", gpb.Render(sp, &gpb.RenderOpts{Target: ni, Variant: "raw", Raw: `{` + strconv.Quote(arm.K) + `:` + armDoc + `,"!type":` + strconv.Quote(other) + `}`}), "oneof")
						}
						reject(fmt.Sprintf("n%d:unknown-arm", ni), "oneof-unknown-key", gpb.Render(sp, &gpb.RenderOpts{Target: ni, Variant: "raw", Raw: `{"!type":"zzUnknown","zzUnknown":{}}`}), "oneof")
						reject(fmt.Sprintf("n%d:type-unknown", ni), "oneof-type-unknown", gpb.Render(sp, &gpb.RenderOpts{Target: ni, Variant: "raw", Raw: `{"!type":"zzUnknown",` + strconv.Quote(arm.K) + `:` + armDoc + `}`}), "oneof")
						reject(fmt.Sprintf("n%d:type-not-string", ni), "oneof-type-not-string", gpb.Render(sp, &gpb.RenderOpts{Target: ni, Variant: "raw", Raw: `{"!type":1,` + strconv.Quote(arm.K) + `:` + armDoc + `}`}), "oneof")
					}
				case gpb.SArr:
					if len(n.Arr) > 0 && n.Arr[0].T == gpb.SLeaf {
						// scalar where an array is expected
						reject(fmt.Sprintf("n%d:scalar-for-array", ni), "scalar-for-array", gpb.Render(sp, &gpb.RenderOpts{Target: ni, Variant: "raw", Raw: gpb.Render(n.Arr[0], &gpb.RenderOpts{Target: -1})}), "array")
					}
				}
			}
		}
	}
	// trailing data after the document is not a member fault and is left to C06 / totality
}

// otherArm finds another arm of the same oneof and a minimal document for it.
func otherArm(n *gpb.Spec, have string) (string, string) {
	var fields []*gpb.Field
	if n.M != nil {
		fields = n.M.Fields
	} else if n.F != nil && n.F.Msg != nil && n.F.Msg.IsOneof {
		fields = n.F.Msg.Fields
	}
	for _, f := range fields {
		if f.JSON == have {
			continue
		}
		switch {
		case f.Kind.IsMessage():
			return f.JSON, `{}`
		case f.Kind == gpb.KString || f.Kind == gpb.KKey:
			return f.JSON, `"x"`
		case f.Kind == gpb.KBool:
			return f.JSON, `true`
		}
	}
	return "", ""
}

// toQuery renders the scalar members of a document as url.Values (dotted
// paths into nested objects). Documents holding anything else are skipped.
// oneofSite: a oneof the query addresses: the key prefix up to and including the oneof's name,
// the member the query selects, and all members of that oneof.
type oneofSite struct {
	prefix string
	chosen string
	arms   []*gpb.Field
}

var querySites []oneofSite // sites of the last toQuery call

func toQuery(sp *gpb.Spec) (url.Values, bool) {
	q := url.Values{}
	querySites = nil
	var rec func(s *gpb.Spec, prefix string) bool
	leaf := func(v *gpb.Val) (string, bool) {
		switch v.Kind {
		case gpb.KString, gpb.KKey, gpb.KKeyID62, gpb.KKeyUUID:
			return v.Str, true
		case gpb.KBool:
			return strconv.FormatBool(v.Bool), true
		case gpb.KInt32, gpb.KSint32, gpb.KInt64, gpb.KSint64:
			return strconv.FormatInt(v.Int, 10), true
		case gpb.KUint32, gpb.KUint64:
			return strconv.FormatUint(v.Uint, 10), true
		case gpb.KFloat:
			return strconv.FormatFloat(v.Flt, 'g', -1, 32), true
		case gpb.KDouble:
			return strconv.FormatFloat(v.Flt, 'g', -1, 64), true
		case gpb.KBytes:
			return base64.StdEncoding.EncodeToString(v.Bytes), true
		case gpb.KDate:
			return fmt.Sprintf("%04d-%02d-%02d", v.Y, v.M, v.D), true
		case gpb.KDecimal:
			return v.Str, true
		case gpb.KTimestamp:
			return time.Unix(v.Sec, int64(v.Nanos)).UTC().Format(time.RFC3339Nano), true
		}
		return "", false
	}
	rec = func(s *gpb.Spec, prefix string) bool {
		if s.T != gpb.SObj {
			return false
		}
		for _, m := range s.Mem {
			switch m.V.T {
			case gpb.SLeaf:
				str, ok := leaf(m.V.Leaf)
				if !ok {
					return false
				}
				q[prefix+m.K] = []string{str}
			case gpb.SArr:
				var vals []string
				for _, e := range m.V.Arr {
					if e.T != gpb.SLeaf {
						return false
					}
					str, ok := leaf(e.Leaf)
					if !ok {
						return false
					}
					vals = append(vals, str)
				}
				q[prefix+m.K] = vals
			case gpb.SObj:
				if m.V.F != nil && m.V.F.Kind == gpb.KFlatten {
					return false
				}
				if len(m.V.Mem) == 0 {
					return false // an empty nested object cannot be expressed as scalar parameters
				}
				if !rec(m.V, prefix+m.K+".") {
					return false
				}
			case gpb.SOneof:
				// a oneof is addressed through its one member: w.arm=value or w.arm.member=value
				if len(m.V.Mem) != 1 {
					return false
				}
				arm := m.V.Mem[0]
				site := oneofSite{prefix: prefix + m.K + ".", chosen: arm.K}
				if m.V.M != nil {
					site.arms = m.V.M.Fields
				} else if m.V.F != nil && s.M != nil {
					for _, g := range s.M.Fields {
						if g.Group == m.V.F.Group {
							site.arms = append(site.arms, g)
						}
					}
				}
				querySites = append(querySites, site)
				switch arm.V.T {
				case gpb.SLeaf:
					str, ok := leaf(arm.V.Leaf)
					if !ok {
						return false
					}
					q[prefix+m.K+"."+arm.K] = []string{str}
				case gpb.SObj:
					if len(arm.V.Mem) == 0 || !rec(arm.V, prefix+m.K+"."+arm.K+".") {
						return false
					}
				default:
					return false
				}
			default:
				return false
			}
		}
		return true
	}
	if !rec(sp, "") {
		return nil, false
	}
	return q, true
}
