// Package vsync replaces "sync" in the instrumented copies of the packages
// under test (engine E2). Every type wraps the real sync type, so the race
// detector still sees the real acquire / release edges; before each
// operation the running thread yields to the controlled scheduler.
package vsync

import (
	"sync"
	"unsafe"

	"github.com/pentops/j5/internal/zzverif/vsched"
)

type Locker = sync.Locker

type Mutex struct{ mu sync.Mutex }

func (m *Mutex) Lock() {
	vsched.Yield(vsched.OpLock, uintptr(unsafe.Pointer(m)))
	m.mu.Lock()
	vsched.Acquired(uintptr(unsafe.Pointer(m)), false)
}

func (m *Mutex) Unlock() {
	vsched.Yield(vsched.OpUnlock, uintptr(unsafe.Pointer(m)))
	vsched.Released(uintptr(unsafe.Pointer(m)), false)
	m.mu.Unlock()
}

func (m *Mutex) TryLock() bool {
	vsched.Yield(vsched.OpAtomic, uintptr(unsafe.Pointer(m)))
	ok := m.mu.TryLock()
	if ok {
		vsched.Acquired(uintptr(unsafe.Pointer(m)), false)
	}
	return ok
}

type RWMutex struct{ mu sync.RWMutex }

func (m *RWMutex) Lock() {
	vsched.Yield(vsched.OpLock, uintptr(unsafe.Pointer(m)))
	m.mu.Lock()
	vsched.Acquired(uintptr(unsafe.Pointer(m)), false)
}

func (m *RWMutex) Unlock() {
	vsched.Yield(vsched.OpUnlock, uintptr(unsafe.Pointer(m)))
	vsched.Released(uintptr(unsafe.Pointer(m)), false)
	m.mu.Unlock()
}

func (m *RWMutex) RLock() {
	vsched.Yield(vsched.OpRLock, uintptr(unsafe.Pointer(m)))
	m.mu.RLock()
	vsched.Acquired(uintptr(unsafe.Pointer(m)), true)
}

func (m *RWMutex) RUnlock() {
	vsched.Yield(vsched.OpRUnlock, uintptr(unsafe.Pointer(m)))
	vsched.Released(uintptr(unsafe.Pointer(m)), true)
	m.mu.RUnlock()
}

func (m *RWMutex) TryLock() bool {
	vsched.Yield(vsched.OpAtomic, uintptr(unsafe.Pointer(m)))
	ok := m.mu.TryLock()
	if ok {
		vsched.Acquired(uintptr(unsafe.Pointer(m)), false)
	}
	return ok
}

func (m *RWMutex) TryRLock() bool {
	vsched.Yield(vsched.OpAtomic, uintptr(unsafe.Pointer(m)))
	ok := m.mu.TryRLock()
	if ok {
		vsched.Acquired(uintptr(unsafe.Pointer(m)), true)
	}
	return ok
}

type rlocker RWMutex

func (r *rlocker) Lock()   { (*RWMutex)(r).RLock() }
func (r *rlocker) Unlock() { (*RWMutex)(r).RUnlock() }

func (m *RWMutex) RLocker() Locker { return (*rlocker)(m) }

// Once: the first caller runs f while holding an internal mutex that later
// callers block on, exactly like sync.Once.
type Once struct {
	mu   Mutex
	done bool
}

func (o *Once) Do(f func()) {
	o.mu.Lock()
	defer o.mu.Unlock()
	if !o.done {
		defer func() { o.done = true }()
		f()
	}
}

func OnceFunc(f func()) func() {
	var o Once
	return func() { o.Do(f) }
}

func OnceValue[T any](f func() T) func() T {
	var o Once
	var v T
	return func() T { o.Do(func() { v = f() }); return v }
}

func OnceValues[T1, T2 any](f func() (T1, T2)) func() (T1, T2) {
	var o Once
	var v1 T1
	var v2 T2
	return func() (T1, T2) { o.Do(func() { v1, v2 = f() }); return v1, v2 }
}

type Map struct{ m sync.Map }

func (m *Map) y() { vsched.Yield(vsched.OpMapOp, uintptr(unsafe.Pointer(m))) }

func (m *Map) Load(key any) (any, bool)            { m.y(); return m.m.Load(key) }
func (m *Map) Store(key, value any)                { m.y(); m.m.Store(key, value) }
func (m *Map) LoadOrStore(key, value any) (any, bool) { m.y(); return m.m.LoadOrStore(key, value) }
func (m *Map) LoadAndDelete(key any) (any, bool)   { m.y(); return m.m.LoadAndDelete(key) }
func (m *Map) Delete(key any)                      { m.y(); m.m.Delete(key) }
func (m *Map) Swap(key, value any) (any, bool)     { m.y(); return m.m.Swap(key, value) }
func (m *Map) CompareAndSwap(key, old, new any) bool { m.y(); return m.m.CompareAndSwap(key, old, new) }
func (m *Map) CompareAndDelete(key, old any) bool  { m.y(); return m.m.CompareAndDelete(key, old) }
func (m *Map) Range(f func(key, value any) bool)   { m.y(); m.m.Range(f) }
func (m *Map) Clear()                              { m.y(); m.m.Clear() }

// Pool: Get / Put are scheduling points; the real pool is used (its per-P
// caches behave deterministically under GOMAXPROCS=1).
type Pool struct {
	p   sync.Pool
	New func() any
}

func (p *Pool) Get() any {
	vsched.Yield(vsched.OpPoolOp, uintptr(unsafe.Pointer(p)))
	if v := p.p.Get(); v != nil {
		return v
	}
	if p.New != nil {
		return p.New()
	}
	return nil
}

func (p *Pool) Put(x any) {
	vsched.Yield(vsched.OpPoolOp, uintptr(unsafe.Pointer(p)))
	p.p.Put(x)
}

// WaitGroup: Wait is modelled as a spin with a scheduling point per iteration.
type WaitGroup struct {
	mu sync.Mutex
	n  int
}

func (w *WaitGroup) Add(d int) {
	vsched.Yield(vsched.OpAtomic, uintptr(unsafe.Pointer(w)))
	w.mu.Lock()
	w.n += d
	w.mu.Unlock()
}
func (w *WaitGroup) Done() { w.Add(-1) }
func (w *WaitGroup) Wait() {
	for i := 0; ; i++ {
		vsched.Yield(vsched.OpWait, uintptr(unsafe.Pointer(w)))
		w.mu.Lock()
		n := w.n
		w.mu.Unlock()
		if n <= 0 {
			return
		}
		if i > 100000 {
			panic("vsync: WaitGroup.Wait never satisfied (livelock)")
		}
	}
}

// Cond is passed through (not used on the codec path; kept so that code using
// it still builds). Wait is not a controlled blocking point.
type Cond = sync.Cond

func NewCond(l Locker) *Cond { return sync.NewCond(l) }
