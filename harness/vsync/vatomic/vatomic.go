// Package vatomic replaces "sync/atomic" in the instrumented copies (engine
// E2): every operation is a scheduling point, then the real atomic runs.
package vatomic

import (
	"sync/atomic"
	"unsafe"

	"github.com/pentops/j5/internal/zzverif/vsched"
)

func y(p unsafe.Pointer) { vsched.Yield(vsched.OpAtomic, uintptr(p)) }

type Int32 struct{ v atomic.Int32 }

func (x *Int32) Load() int32                      { y(unsafe.Pointer(x)); return x.v.Load() }
func (x *Int32) Store(v int32)                    { y(unsafe.Pointer(x)); x.v.Store(v) }
func (x *Int32) Swap(v int32) int32               { y(unsafe.Pointer(x)); return x.v.Swap(v) }
func (x *Int32) CompareAndSwap(o, n int32) bool   { y(unsafe.Pointer(x)); return x.v.CompareAndSwap(o, n) }
func (x *Int32) Add(d int32) int32                { y(unsafe.Pointer(x)); return x.v.Add(d) }

type Int64 struct{ v atomic.Int64 }

func (x *Int64) Load() int64                      { y(unsafe.Pointer(x)); return x.v.Load() }
func (x *Int64) Store(v int64)                    { y(unsafe.Pointer(x)); x.v.Store(v) }
func (x *Int64) Swap(v int64) int64               { y(unsafe.Pointer(x)); return x.v.Swap(v) }
func (x *Int64) CompareAndSwap(o, n int64) bool   { y(unsafe.Pointer(x)); return x.v.CompareAndSwap(o, n) }
func (x *Int64) Add(d int64) int64                { y(unsafe.Pointer(x)); return x.v.Add(d) }

type Uint32 struct{ v atomic.Uint32 }

func (x *Uint32) Load() uint32                    { y(unsafe.Pointer(x)); return x.v.Load() }
func (x *Uint32) Store(v uint32)                  { y(unsafe.Pointer(x)); x.v.Store(v) }
func (x *Uint32) Swap(v uint32) uint32            { y(unsafe.Pointer(x)); return x.v.Swap(v) }
func (x *Uint32) CompareAndSwap(o, n uint32) bool { y(unsafe.Pointer(x)); return x.v.CompareAndSwap(o, n) }
func (x *Uint32) Add(d uint32) uint32             { y(unsafe.Pointer(x)); return x.v.Add(d) }

type Uint64 struct{ v atomic.Uint64 }

func (x *Uint64) Load() uint64                    { y(unsafe.Pointer(x)); return x.v.Load() }
func (x *Uint64) Store(v uint64)                  { y(unsafe.Pointer(x)); x.v.Store(v) }
func (x *Uint64) Swap(v uint64) uint64            { y(unsafe.Pointer(x)); return x.v.Swap(v) }
func (x *Uint64) CompareAndSwap(o, n uint64) bool { y(unsafe.Pointer(x)); return x.v.CompareAndSwap(o, n) }
func (x *Uint64) Add(d uint64) uint64             { y(unsafe.Pointer(x)); return x.v.Add(d) }

type Bool struct{ v atomic.Bool }

func (x *Bool) Load() bool                    { y(unsafe.Pointer(x)); return x.v.Load() }
func (x *Bool) Store(v bool)                  { y(unsafe.Pointer(x)); x.v.Store(v) }
func (x *Bool) Swap(v bool) bool              { y(unsafe.Pointer(x)); return x.v.Swap(v) }
func (x *Bool) CompareAndSwap(o, n bool) bool { y(unsafe.Pointer(x)); return x.v.CompareAndSwap(o, n) }

type Pointer[T any] struct{ v atomic.Pointer[T] }

func (x *Pointer[T]) Load() *T                    { y(unsafe.Pointer(x)); return x.v.Load() }
func (x *Pointer[T]) Store(v *T)                  { y(unsafe.Pointer(x)); x.v.Store(v) }
func (x *Pointer[T]) Swap(v *T) *T                { y(unsafe.Pointer(x)); return x.v.Swap(v) }
func (x *Pointer[T]) CompareAndSwap(o, n *T) bool { y(unsafe.Pointer(x)); return x.v.CompareAndSwap(o, n) }

type Value struct{ v atomic.Value }

func (x *Value) Load() any                    { y(unsafe.Pointer(x)); return x.v.Load() }
func (x *Value) Store(v any)                  { y(unsafe.Pointer(x)); x.v.Store(v) }
func (x *Value) Swap(v any) any               { y(unsafe.Pointer(x)); return x.v.Swap(v) }
func (x *Value) CompareAndSwap(o, n any) bool { y(unsafe.Pointer(x)); return x.v.CompareAndSwap(o, n) }

func LoadInt32(p *int32) int32                       { y(unsafe.Pointer(p)); return atomic.LoadInt32(p) }
func StoreInt32(p *int32, v int32)                   { y(unsafe.Pointer(p)); atomic.StoreInt32(p, v) }
func AddInt32(p *int32, d int32) int32               { y(unsafe.Pointer(p)); return atomic.AddInt32(p, d) }
func SwapInt32(p *int32, v int32) int32              { y(unsafe.Pointer(p)); return atomic.SwapInt32(p, v) }
func CompareAndSwapInt32(p *int32, o, n int32) bool  { y(unsafe.Pointer(p)); return atomic.CompareAndSwapInt32(p, o, n) }
func LoadInt64(p *int64) int64                       { y(unsafe.Pointer(p)); return atomic.LoadInt64(p) }
func StoreInt64(p *int64, v int64)                   { y(unsafe.Pointer(p)); atomic.StoreInt64(p, v) }
func AddInt64(p *int64, d int64) int64               { y(unsafe.Pointer(p)); return atomic.AddInt64(p, d) }
func SwapInt64(p *int64, v int64) int64              { y(unsafe.Pointer(p)); return atomic.SwapInt64(p, v) }
func CompareAndSwapInt64(p *int64, o, n int64) bool  { y(unsafe.Pointer(p)); return atomic.CompareAndSwapInt64(p, o, n) }
func LoadUint32(p *uint32) uint32                    { y(unsafe.Pointer(p)); return atomic.LoadUint32(p) }
func StoreUint32(p *uint32, v uint32)                { y(unsafe.Pointer(p)); atomic.StoreUint32(p, v) }
func AddUint32(p *uint32, d uint32) uint32           { y(unsafe.Pointer(p)); return atomic.AddUint32(p, d) }
func SwapUint32(p *uint32, v uint32) uint32          { y(unsafe.Pointer(p)); return atomic.SwapUint32(p, v) }
func CompareAndSwapUint32(p *uint32, o, n uint32) bool { y(unsafe.Pointer(p)); return atomic.CompareAndSwapUint32(p, o, n) }
func LoadUint64(p *uint64) uint64                    { y(unsafe.Pointer(p)); return atomic.LoadUint64(p) }
func StoreUint64(p *uint64, v uint64)                { y(unsafe.Pointer(p)); atomic.StoreUint64(p, v) }
func AddUint64(p *uint64, d uint64) uint64           { y(unsafe.Pointer(p)); return atomic.AddUint64(p, d) }
func SwapUint64(p *uint64, v uint64) uint64          { y(unsafe.Pointer(p)); return atomic.SwapUint64(p, v) }
func CompareAndSwapUint64(p *uint64, o, n uint64) bool { y(unsafe.Pointer(p)); return atomic.CompareAndSwapUint64(p, o, n) }
func LoadPointer(p *unsafe.Pointer) unsafe.Pointer   { y(unsafe.Pointer(p)); return atomic.LoadPointer(p) }
func StorePointer(p *unsafe.Pointer, v unsafe.Pointer) { y(unsafe.Pointer(p)); atomic.StorePointer(p, v) }
func SwapPointer(p *unsafe.Pointer, v unsafe.Pointer) unsafe.Pointer { y(unsafe.Pointer(p)); return atomic.SwapPointer(p, v) }
func CompareAndSwapPointer(p *unsafe.Pointer, o, n unsafe.Pointer) bool { y(unsafe.Pointer(p)); return atomic.CompareAndSwapPointer(p, o, n) }
