// C07: the j5s compiler is total and accepts the whole documented language.
package main

import (
	"context"
	"fmt"
	"regexp"
	"strconv"
	"strings"

	"github.com/pentops/j5/internal/bcl/errpos"
	"github.com/pentops/j5/internal/j5s/protobuild"
	"github.com/pentops/j5/internal/zzverif/gj5s"
	"github.com/pentops/j5/internal/zzverif/vk"
)

var ctx = context.Background()

func main() {
	gj5s.Silence()
	vk.Main(&vk.Check{
		ID:   "C07",
		Rule: "rejecting side: every concatenation of <=N symbols of the BCL lexical alphabet (N=3 quick / 4 thorough) and of a 22-symbol j5s keyword alphabet (N=4 / 5) offered as the only file of a package to CompilePackage and LintFile; every single-chunk deletion, adjacent swap, truncation and keyword insertion of ~60 rendered valid files; one semantic error of each class (unknown type, unknown attribute, duplicate field / type / option, required+optional, unresolved reference, unknown / unused import, missing request field, bad verb, path parameter without field, cross-file reference cycles, type named like its parent); accepting side: every program of C02's families and the full (rule x field type) matrix, each rule alone in a file that contains nothing else; a case = one source bundle; non-trivial = non-blank source",
		Assumptions: []string{
			"token sequences share one PackageSet per 1500 cases (each case is its own package and file); every violation candidate is re-run alone on a fresh PackageSet before it is reported",
			"'carries a position' = errpos finds a position in the error chain whose start lies inside the offending file",
			"termination by the 120 s watchdog",
		},
		Isolate:        true,
		QuickBudget:    900,
		ThoroughBudget: 7200,
		Run:            run,
	})
}

var bclSigma = []string{
	" ", "\t", "\n", "a", "é", "true", "1", "1.5", "1.2.3", "٣", `"s"`, `"q\"q"`, `"b\\"`, "\"x\\\ny\"", `"\z"`, `"u`, "/r/", "/a//b/", "/u",
	"//c", "/*c*/", "/*m\nn*/", "/*u", "| d", "|", "=", "{", "}", "[", "]", ".", ",", ":", "+", "!", "?", "@", "\r", "\x00", "😀\n",
}

var kwSigma = []string{" ", "\n", "object", "field", "enum", "option", "oneof", "Foo", "name", "string", "array", "integer:INT32", "object:Foo", "{", "}", "!", ":", "=", "true", "| d", "required", "import"}

// pooled PackageSet: packages q0..q1499, each used once
type pool struct {
	b    *gj5s.Bundle
	ps   *protobuild.PackageSet
	next int
}

const poolSize = 1500

func newPool() *pool {
	b := gj5s.NewBundle()
	for i := 0; i < poolSize; i++ {
		b.Packages = append(b.Packages, fmt.Sprintf("q%d.v1", i))
	}
	ps, err := b.NewPackageSet()
	if err != nil {
		panic(err)
	}
	return &pool{b: b, ps: ps}
}

var unusedImport = regexp.MustCompile(`^import "[^"]*" not used$`)

type outcome struct {
	class string // accepted | rejected
	viol  string // violation clause, "" if none
	what  string
}

// compileOne runs CompilePackage and LintFile on a single-file package.
func compileOne(ps *protobuild.PackageSet, b *gj5s.Bundle, pkg, path, src string) (out outcome) {
	defer func() {
		if e := recover(); e != nil {
			out = outcome{class: "panic", viol: "panic|" + vk.PanicSig(e, string(stack())), what: fmt.Sprintf("panic: %v", e)}
		}
	}()
	files, err := ps.CompilePackage(ctx, pkg)
	if err == nil {
		if len(files) == 0 {
			return outcome{class: "accepted", viol: "no-files-no-error", what: "CompilePackage returned no files and no error"}
		}
		out.class = "accepted"
	} else {
		out.class = "rejected"
		if v, w := positions(err, path, src); v != "" {
			return outcome{class: "rejected", viol: v, what: w}
		}
	}
	ews, lerr := protobuild.LintFile(ctx, ps, path, src)
	if lerr != nil {
		// a plain error from the linter must still carry a position for source errors
		if v, w := positions(lerr, path, src); v != "" {
			return outcome{class: out.class, viol: "lint-" + v, what: w}
		}
	}
	if ews != nil {
		lines := strings.Split(src, "\n")
		for _, e := range ews.Errors {
			if e.Pos == nil {
				continue // warnings about other files carry no position
			}
			if e.Pos.Filename != nil && *e.Pos.Filename != path {
				continue
			}
			if e.Pos.Start.Line < 0 || e.Pos.Start.Line > len(lines) || e.Pos.Start.Column < 0 {
				return outcome{class: out.class, viol: "lint-position-outside-file", what: fmt.Sprintf("lint diagnostic %q at %d:%d lies outside the %d-line file", e.Err, e.Pos.Start.Line, e.Pos.Start.Column, len(lines))}
			}
		}
		_ = ews.HumanString(2)
	}
	return out
}

// positions: every source error must carry a position inside the file.
func positions(err error, path, src string) (string, string) {
	var errs errpos.Errors
	if ews, ok := errpos.AsErrorsWithSource(err); ok {
		errs = ews.Errors
	} else if es, ok := errpos.AsErrors(err); ok {
		errs = es
	}
	lines := strings.Split(src, "\n")
	structured := len(errs) > 0
	for _, e := range errs {
		if e.Pos == nil {
			structured = false
			break
		}
		if e.Pos.Filename != nil && *e.Pos.Filename != path {
			continue // a position in another file of the bundle
		}
		if e.Pos.Start.Line < 0 || e.Pos.Start.Line > len(lines) || e.Pos.Start.Column < 0 {
			return "error-position-outside-file", fmt.Sprintf("error %q at %d:%d lies outside the %d-line file", e.Err, e.Pos.Start.Line, e.Pos.Start.Column, len(lines))
		}
	}
	if structured {
		return "", ""
	}
	// a position rendered into the message (file:line:col or line:col) also counts
	if m := rePos.FindStringSubmatch(err.Error()); m != nil {
		ln, _ := strconv.Atoi(m[1])
		if ln < 1 || ln > len(lines)+1 {
			return "error-position-outside-file", fmt.Sprintf("the error names line %d of a %d-line file: %v", ln, len(lines), err)
		}
		return "", ""
	}
	return "error-without-position|" + errShape(err), fmt.Sprintf("the error carries no position: %v", err)
}

var rePos = regexp.MustCompile(`(?:^|[\s:(])(\d+):(\d+)(?:[\s:)]|$)`)

// errShape: the message with identifiers and numbers removed (class of the error).
func errShape(err error) string {
	if err == nil {
		return "nil"
	}
	m := vk.ErrTail(err)
	m = rePath.ReplaceAllString(m, "<path>")
	m = reChain.ReplaceAllString(m, "<package cycle>")
	if i := strings.Index(m, "; resolved to"); i > 0 {
		m = m[:i]
	}
	if strings.HasPrefix(m, "unknown type ") {
		m = "unknown type <name>"
	}
	return m
}

var rePath = regexp.MustCompile(`[A-Za-z]+/vN[A-Za-z]*(/[\w.]+)?`)
var reChain = regexp.MustCompile(`\w+\.vN( -> \w+\.vN)+`)

func stack() []byte {
	buf := make([]byte, 16<<10)
	n := 0
	func() { n = runtimeStack(buf) }()
	return buf[:n]
}

func run(r *vk.Runner) {
	// ---------- rejecting side: token sequences on a pooled PackageSet ----------
	var pl *pool
	seqCase := func(fam, id, src string, sample bool) {
		r.Do(id, func(t *vk.T) {
			t.Coord(fam)
			t.SigCoord(fam)
			if strings.TrimSpace(src) != "" {
				t.Nontrivial()
			}
			if pl == nil || pl.next >= poolSize {
				pl = newPool()
			}
			pkg := fmt.Sprintf("q%d.v1", pl.next)
			path := fmt.Sprintf("q%d/v1/a.j5s", pl.next)
			pl.next++
			pl.b.Files[path] = src
			o := compileOne(pl.ps, pl.b, pkg, path, src)
			delete(pl.b.Files, path)
			t.Steps(2)
			if o.viol != "" {
				// confirm alone on a fresh PackageSet
				b := gj5s.NewBundle()
				b.Add("t/v1/a.j5s", src)
				ps, err := b.NewPackageSet()
				if err != nil {
					panic(err)
				}
				o2 := compileOne(ps, b, "t.v1", "t/v1/a.j5s", src)
				if o2.viol != "" {
					t.Violation(o2.viol, fmt.Sprintf("%s\nsource (%s): %q", o2.what, fam, src), src, nil, nil)
				} else {
					t.Violation("result-depends-on-earlier-compiles|"+o.viol, fmt.Sprintf("on a PackageSet that compiled other packages before: %s; alone: no problem\nsource: %q", o.what, src), src, nil, nil)
				}
			}
			t.Class(o.class)
			if sample && o.class == "accepted" {
				t.Sample(src)
			}
		})
	}
	seqs := func(fam string, sig []string, n int) {
		r.Family(fam)
		idx := make([]int, 0, n)
		var sb strings.Builder
		var rec func(d int)
		rec = func(d int) {
			if r.Stopped() {
				return
			}
			if r.Mine() {
				sb.Reset()
				id := make([]string, len(idx))
				for i, k := range idx {
					sb.WriteString(sig[k])
					id[i] = strconv.Itoa(k)
				}
				seqCase(fam, fam+":"+strings.Join(id, "."), sb.String(), len(idx) == n)
			} else {
				r.SkipCase()
			}
			if d == n {
				return
			}
			for k := range sig {
				idx = append(idx, k)
				rec(d + 1)
				idx = idx[:len(idx)-1]
			}
		}
		rec(0)
	}
	if r.Quick() {
		seqs("bcl-token-sequences", bclSigma, 3)
		seqs("keyword-sequences", kwSigma, 4)
	} else {
		seqs("bcl-token-sequences", bclSigma, 4)
		seqs("keyword-sequences", kwSigma, 5)
	}

	// ---------- accepting side: every generated program compiles and links ----------
	all := gj5s.AllContractCases(!r.Quick())
	all = append(all, gj5s.RuleCases()...)
	all = append(all, gj5s.OddNameCases()...)
	all = append(all, gj5s.PipelineCases()...)
	all = append(all, gj5s.ShapeCases()...)
	for _, c := range all {
		c := c
		if r.Stopped() {
			return
		}
		if c.Family == "entities" && strings.HasPrefix(c.ID, "entity:5.") {
			continue // C17's known finding
		}
		r.Family("accept:" + c.Family)
		r.Do("accept:"+c.ID, func(t *vk.T) {
			t.Coord("accept|" + c.Coord)
			t.SigCoord("accept|" + c.Family)
			t.Nontrivial()
			b := c.P.Bundle()
			src := ""
			for _, f := range c.P.Files {
				src += "// " + f.Path() + "\n" + b.Files[f.Path()] + "\n"
			}
			ps, err := b.NewPackageSet()
			if err != nil {
				panic(err)
			}
			for _, pkg := range b.Packages {
				_, err := ps.CompilePackage(ctx, pkg)
				t.Step()
				if err != nil {
					t.Violation("valid-program-rejected|"+c.Coord+"|"+vk.ErrTail(err), fmt.Sprintf("a program of the documented language does not compile: %v\n%s", err, src), src, nil, err.Error())
					return
				}
			}
			// the editor's entry point: linting each source file of the accepted package on a fresh
			// package set must not fail either
			for _, f := range c.P.Files {
				if f.IsProto || f.IsDep || f.ListedOnly {
					continue
				}
				lps, err := b.NewPackageSet()
				if err != nil {
					panic(err)
				}
				ews, lerr := protobuild.LintFile(ctx, lps, f.Path(), b.Files[f.Path()])
				t.Step()
				if lerr != nil {
					t.Violation("valid-program-fails-lint|"+c.Family+"|"+vk.ErrTail(lerr), fmt.Sprintf("CompilePackage accepts the package but LintFile(%s) fails: %v\n%s", f.Path(), lerr, src), src, nil, lerr.Error())
					return
				}
				if ews != nil {
					for _, e := range ews.Errors {
						// LintFile returns errors and warnings in one list; the only warning the linker
						// issues is about unused imports, which the property does not speak about
						if unusedImport.MatchString(e.Err.Error()) {
							t.Class("accepted-with-unused-import-warning")
							continue
						}
						t.Violation("valid-program-lint-diagnostics|"+c.Family+"|"+vk.ErrTail(e.Err), fmt.Sprintf("CompilePackage accepts the package but LintFile(%s) reports: %v\n%s", f.Path(), e.Err, src), src, nil, e.Err.Error())
						return
					}
				}
			}
			t.Class("accepted")
		})
	}

	// ---------- rejecting side: mutations of valid files and semantic errors ----------
	r.Family("mutations")
	var bases []*gj5s.Case
	seen := map[string]bool{}
	for _, c := range gj5s.AllContractCases(false) {
		key := c.Family
		if c.Family == "single-field" {
			if !strings.HasSuffix(c.ID, ":plain:none") && !strings.HasSuffix(c.ID, ":array:bang") && !strings.HasSuffix(c.ID, ":map:required-attr") {
				continue
			}
			key = c.ID
		}
		if c.Family == "references" || c.Family == "entities" || c.Family == "services" {
			key = c.Coord
			if c.Family == "entities" {
				key = "entities"
			}
		}
		if seen[key] || len(c.P.Files) != 1 {
			continue
		}
		seen[key] = true
		bases = append(bases, c)
	}
	bases = append(bases, gj5s.RuleCases()[:12]...)
	inserts := []string{"!", "?", "{", "}", ":", "=", "field", "object", "\"s\"", "1", "\n", "| d", "import x.v1\n", "."}
	for _, c := range bases {
		src := c.P.Files[0].Render()
		ch := chunks(src)
		mut := func(id, m string) {
			r.Do("mut:"+c.ID+":"+id, func(t *vk.T) {
				t.Coord("mutation|" + c.Family)
				t.SigCoord("mutation")
				t.Nontrivial()
				b := gj5s.NewBundle()
				b.Add("t/v1/a.j5s", m)
				ps, err := b.NewPackageSet()
				if err != nil {
					panic(err)
				}
				o := compileOne(ps, b, "t.v1", "t/v1/a.j5s", m)
				t.Steps(2)
				if o.viol != "" {
					t.Violation(o.viol, fmt.Sprintf("%s\nsource (mutation %s of %s):\n%s", o.what, id, c.ID, m), m, nil, nil)
				}
				t.Class(o.class)
			})
		}
		for i := range ch {
			if strings.TrimSpace(ch[i]) == "" && ch[i] != "\n" {
				continue
			}
			mut(fmt.Sprintf("del:%d", i), strings.Join(ch[:i], "")+strings.Join(ch[i+1:], ""))
			if i+1 < len(ch) {
				mut(fmt.Sprintf("swap:%d", i), strings.Join(ch[:i], "")+ch[i+1]+ch[i]+strings.Join(ch[i+2:], ""))
			}
			mut(fmt.Sprintf("trunc:%d", i), strings.Join(ch[:i], ""))
			if i%3 == 0 {
				for k, ins := range inserts {
					if !r.Mine() {
						r.SkipCase()
						continue
					}
					mut(fmt.Sprintf("ins:%d:%d", i, k), strings.Join(ch[:i], "")+ins+" "+strings.Join(ch[i:], ""))
				}
			}
		}
	}

	r.Family("semantic-errors")
	for _, se := range gj5s.SemanticErrorCases() {
		se := se
		r.Do("sem:"+se.ID, func(t *vk.T) {
			t.Coord("semantic-error|" + se.ID)
			t.SigCoord("semantic-error|" + se.ID)
			t.Nontrivial()
			b := gj5s.NewBundle()
			for p, s := range se.Files {
				b.Add(p, s)
			}
			ps, err := b.NewPackageSet()
			if err != nil {
				panic(err)
			}
			first := se.Order[0]
			pkg := strings.ReplaceAll(first[:strings.LastIndex(first, "/")], "/", ".")
			o := compileOne(ps, b, pkg, first, se.Files[first])
			t.Steps(2)
			if se.Valid && o.class != "accepted" {
				t.Violation("valid-program-rejected|"+se.ID, fmt.Sprintf("a program of the documented language does not compile (%s): %s\n%v", se.ID, o.what, se.Files), se.Files, nil, nil)
			} else if o.viol != "" {
				t.Violation(o.viol, fmt.Sprintf("%s\nsemantic error case %s:\n%v", o.what, se.ID, se.Files), se.Files, nil, nil)
			}
			if o.class == "accepted" && se.MustReject {
				t.Class("accepted-although-erroneous")
			} else {
				t.Class(o.class)
			}
		})
	}
}

// chunks: identifiers, strings, punctuation, white space.
func chunks(s string) []string {
	var out []string
	rs := []rune(s)
	isID := func(r rune) bool {
		return r == '_' || r == '.' || r >= '0' && r <= '9' || r >= 'a' && r <= 'z' || r >= 'A' && r <= 'Z'
	}
	for i := 0; i < len(rs); {
		j := i + 1
		switch {
		case isID(rs[i]):
			for j < len(rs) && isID(rs[j]) {
				j++
			}
		case rs[i] == '"':
			for j < len(rs) && rs[j] != '"' && rs[j] != '\n' {
				j++
			}
			if j < len(rs) {
				j++
			}
		case rs[i] == ' ' || rs[i] == '\t':
			for j < len(rs) && (rs[j] == ' ' || rs[j] == '\t') {
				j++
			}
		case rs[i] == '|':
			for j < len(rs) && rs[j] != '\n' {
				j++
			}
		}
		out = append(out, string(rs[i:j]))
		i = j
	}
	return out
}
