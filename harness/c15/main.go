// C15: schema sets survive export to the source-API form and re-import.
package main

import (
	"context"
	"fmt"
	"os"
	"sort"
	"strings"

	"github.com/pentops/j5/gen/j5/schema/v1/schema_j5pb"
	"github.com/pentops/j5/gen/j5/source/v1/source_j5pb"
	"github.com/pentops/j5/internal/structure"
	"github.com/pentops/j5/internal/zzverif/gj5s"
	"github.com/pentops/j5/internal/zzverif/vk"
	"github.com/pentops/j5/lib/j5schema"
	"google.golang.org/protobuf/encoding/prototext"
	"google.golang.org/protobuf/proto"
	"google.golang.org/protobuf/reflect/protodesc"
	"google.golang.org/protobuf/reflect/protoreflect"
	"google.golang.org/protobuf/reflect/protoregistry"
	"google.golang.org/protobuf/types/descriptorpb"
)

func main() {
	gj5s.Silence()
	vk.Main(&vk.Check{
		ID:   "C15",
		Rule: "descriptor sets: (a) compiled from every j5s program family (single fields, numbering, nesting, enums, cross-file / cross-package / aliased references, services, topics, entities, annotations, the rule matrix, shapes incl. self / mutual recursion, pipeline families), listed in the image with every package and with each single package (the others become indirect); (b) raw descriptor sets: 31 proto field types x 4 labels x ~90 annotations and the structure set of C18 (message options, enum shapes, oneofs, recursion, flatten chains). Each set: APIFromImage -> PackageSetFromSourceAPI -> ToJ5Root of every schema, twice; a case = one descriptor set + package listing; non-trivial = the exported API has at least one schema",
		Assumptions: []string{
			"raw descriptor sets that the reflection rejects (C18 decides whether it may) are out of scope and counted as a class",
			"descriptor sets are handed to APIFromImage as FileDescriptorProtos with their transitive dependencies, as protosrc builds the image",
		},
		Isolate:        true,
		QuickBudget:    900,
		ThoroughBudget: 7200,
		Run:            run,
	})
}

// imageOf builds a source image holding the given files plus all their dependencies.
func imageOf(files []protoreflect.FileDescriptor, packages []string) *source_j5pb.SourceImage {
	img := &source_j5pb.SourceImage{}
	seen := map[string]bool{}
	var add func(fd protoreflect.FileDescriptor)
	add = func(fd protoreflect.FileDescriptor) {
		if seen[fd.Path()] {
			return
		}
		seen[fd.Path()] = true
		imps := fd.Imports()
		for i := 0; i < imps.Len(); i++ {
			add(imps.Get(i).FileDescriptor)
		}
		img.File = append(img.File, protodesc.ToFileDescriptorProto(fd))
	}
	for _, f := range files {
		add(f)
	}
	for _, p := range packages {
		img.Packages = append(img.Packages, &source_j5pb.PackageInfo{Name: p})
	}
	return img
}

type schemaSlot struct {
	pkg, name string
	schema    *schema_j5pb.RootSchema
}

func slots(api *source_j5pb.API) []schemaSlot {
	var out []schemaSlot
	for _, p := range api.Packages {
		for n, s := range p.Schemas {
			out = append(out, schemaSlot{p.Name, n, s})
		}
		for _, sp := range p.SubPackages {
			for n, s := range sp.Schemas {
				out = append(out, schemaSlot{p.Name + "." + sp.Name, n, s})
			}
		}
	}
	sort.Slice(out, func(i, j int) bool {
		if out[i].pkg != out[j].pkg {
			return out[i].pkg < out[j].pkg
		}
		return out[i].name < out[j].name
	})
	return out
}

// unresolved walks every schema reachable from the set and returns references without a target.
func unresolved(ss *j5schema.SchemaSet) []string {
	var out []string
	seen := map[j5schema.RootSchema]bool{}
	var root func(r j5schema.RootSchema, at string)
	var field func(f j5schema.FieldSchema, at string)
	ref := func(r *j5schema.RefSchema, at string) {
		if r == nil {
			out = append(out, at+": nil ref")
			return
		}
		if r.To == nil {
			out = append(out, at+" -> "+r.FullName())
			return
		}
		root(r.To, r.FullName())
	}
	root = func(r j5schema.RootSchema, at string) {
		if seen[r] {
			return
		}
		seen[r] = true
		switch tt := r.(type) {
		case *j5schema.ObjectSchema:
			for _, p := range tt.Properties {
				field(p.Schema, at+"."+p.JSONName)
			}
		case *j5schema.OneofSchema:
			for _, p := range tt.Properties {
				field(p.Schema, at+"."+p.JSONName)
			}
		}
	}
	field = func(f j5schema.FieldSchema, at string) {
		switch tt := f.(type) {
		case *j5schema.ObjectField:
			ref(tt.Ref, at)
		case *j5schema.OneofField:
			ref(tt.Ref, at)
		case *j5schema.EnumField:
			ref(tt.Ref, at)
		case *j5schema.MapField:
			field(tt.Schema, at+"{}")
		case *j5schema.ArrayField:
			field(tt.Schema, at+"[]")
		}
	}
	var pkgs []string
	for n := range ss.Packages {
		pkgs = append(pkgs, n)
	}
	sort.Strings(pkgs)
	for _, pn := range pkgs {
		var names []string
		for n := range ss.Packages[pn].Schemas {
			names = append(names, n)
		}
		sort.Strings(names)
		for _, n := range names {
			ref(ss.Packages[pn].Schemas[n], pn+"."+n)
		}
	}
	return out
}

// firstDiff names the first path at which two messages differ.
func firstDiff(a, b protoreflect.Message, path string) string {
	fds := a.Descriptor().Fields()
	for i := 0; i < fds.Len(); i++ {
		fd := fds.Get(i)
		ha, hb := a.Has(fd), b.Has(fd)
		p := path + "." + string(fd.Name())
		if ha != hb {
			if ha {
				return p + " lost"
			}
			return p + " added"
		}
		if !ha {
			continue
		}
		va, vb := a.Get(fd), b.Get(fd)
		switch {
		case fd.IsList():
			if va.List().Len() != vb.List().Len() {
				return p + " length"
			}
			for j := 0; j < va.List().Len(); j++ {
				if fd.Message() != nil {
					if d := firstDiff(va.List().Get(j).Message(), vb.List().Get(j).Message(), p+"[]"); d != "" {
						return d
					}
				} else if !va.List().Get(j).Equal(vb.List().Get(j)) {
					return p + "[] value"
				}
			}
		case fd.IsMap():
			if !va.Equal(vb) {
				return p + " map"
			}
		case fd.Message() != nil:
			if d := firstDiff(va.Message(), vb.Message(), p); d != "" {
				return d
			}
		default:
			if !va.Equal(vb) {
				return p + " value"
			}
		}
	}
	return ""
}

// fieldKindAt gives a coarse description (schema field kinds) for the signature.
func normPath(p string) string {
	// drop property positions, keep the field-name chain below the last property
	if i := strings.LastIndex(p, ".schema."); i >= 0 {
		return p[i+len(".schema."):]
	}
	return strings.TrimPrefix(p, ".")
}

func checkSet(t *vk.T, img *source_j5pb.SourceImage, fam, coord, src string, mustReflect bool) {
	t.Coord(coord)
	t.SigCoord(fam)
	api1, err := structure.APIFromImage(img)
	t.Step()
	if err != nil {
		if mustReflect {
			t.Class("api-from-image-fails") // C16's business
		} else {
			t.Class("not-reflectable: " + vk.ErrTail(err))
		}
		return
	}
	s1 := slots(api1)
	if fc := os.Getenv("C15_FIELDCOV"); fc != "" {
		seen := map[string]bool{}
		var walk func(m protoreflect.Message)
		walk = func(m protoreflect.Message) {
			m.Range(func(fd protoreflect.FieldDescriptor, v protoreflect.Value) bool {
				seen[string(fd.FullName())] = true
				switch {
				case fd.IsMap():
					if fd.MapValue().Message() != nil {
						v.Map().Range(func(_ protoreflect.MapKey, mv protoreflect.Value) bool { walk(mv.Message()); return true })
					}
				case fd.IsList():
					if fd.Message() != nil {
						for i := 0; i < v.List().Len(); i++ {
							walk(v.List().Get(i).Message())
						}
					}
				case fd.Message() != nil:
					walk(v.Message())
				}
				return true
			})
		}
		for _, sl := range s1 {
			walk(sl.schema.ProtoReflect())
		}
		f, _ := os.OpenFile(fc, os.O_APPEND|os.O_CREATE|os.O_WRONLY, 0644)
		for k := range seen {
			fmt.Fprintln(f, k)
		}
		f.Close()
	}
	if len(s1) > 0 {
		t.Nontrivial()
	}
	t.Key(prototext.MarshalOptions{}.Format(api1))
	cur := api1
	for round := 1; round <= 2; round++ {
		ss, err := j5schema.PackageSetFromSourceAPI(cur.Packages)
		t.Step()
		if err != nil {
			t.Violation(fmt.Sprintf("import-fails|round=%d|%s|%s", round, fam, vk.ErrTail(err)), fmt.Sprintf("PackageSetFromSourceAPI rejects the API exported from the descriptor set (round %d): %v\n%s", round, err, src), src, nil, err.Error())
			return
		}
		if un := unresolved(ss); len(un) > 0 {
			t.Violation(fmt.Sprintf("unresolved-reference|round=%d|%s", round, fam), fmt.Sprintf("after re-import (round %d) references are unresolved: %v\n%s", round, un, src), src, nil, un)
			return
		}
		next := &source_j5pb.API{}
		byPkg := map[string]*source_j5pb.Package{}
		for _, sl := range slots(cur) {
			pkg := ss.Packages[sl.pkg]
			var ref *j5schema.RefSchema
			if pkg != nil {
				ref = pkg.Schemas[sl.name]
			}
			if ref == nil || ref.To == nil {
				t.Violation(fmt.Sprintf("schema-lost|round=%d|%s", round, fam), fmt.Sprintf("schema %s.%s is not in the re-imported set (round %d)\n%s", sl.pkg, sl.name, round, src), src, nil, nil)
				return
			}
			again := ref.To.ToJ5Root()
			t.Step()
			if !proto.Equal(again, sl.schema) {
				d := firstDiff(sl.schema.ProtoReflect(), again.ProtoReflect(), "")
				t.Violation(fmt.Sprintf("re-export-differs|round=%d|%s|%s", round, fam, normPath(d)), fmt.Sprintf("schema %s.%s exports differently after re-import (round %d) at %s\nfirst export: %s\nsecond export: %s\n%s", sl.pkg, sl.name, round, d, prototext.MarshalOptions{}.Format(sl.schema), prototext.MarshalOptions{}.Format(again), src), src, prototext.MarshalOptions{}.Format(sl.schema), prototext.MarshalOptions{}.Format(again))
				return
			}
			np := byPkg[sl.pkg]
			if np == nil {
				np = &source_j5pb.Package{Name: sl.pkg, Schemas: map[string]*schema_j5pb.RootSchema{}}
				byPkg[sl.pkg] = np
				next.Packages = append(next.Packages, np)
			}
			np.Schemas[sl.name] = again
		}
		// nothing beyond the exported schemas appears
		for pn, pkg := range ss.Packages {
			for n := range pkg.Schemas {
				if byPkg[pn] == nil || byPkg[pn].Schemas[n] == nil {
					t.Violation(fmt.Sprintf("schema-invented|round=%d|%s", round, fam), fmt.Sprintf("re-imported set has schema %s.%s which the export does not contain\n%s", pn, n, src), src, nil, pn+"."+n)
					return
				}
			}
		}
		cur = next
	}
}

func depsOf(fdp *descriptorpb.FileDescriptorProto) ([]protoreflect.FileDescriptor, error) {
	var out []protoreflect.FileDescriptor
	for _, d := range fdp.Dependency {
		fd, err := protoregistry.GlobalFiles.FindFileByPath(d)
		if err != nil {
			return nil, err
		}
		out = append(out, fd)
	}
	return out, nil
}

func rawImage(fdp *descriptorpb.FileDescriptorProto) *source_j5pb.SourceImage {
	// APIFromImage reflects every declaration of the package: drop the helper
	// enum without an UNSPECIFIED value unless the case uses it
	if !strings.Contains(prototext.MarshalOptions{}.Format(fdp), ".rt.v1.Bare") {
		var keep []*descriptorpb.EnumDescriptorProto
		for _, e := range fdp.EnumType {
			if e.GetName() != "Bare" {
				keep = append(keep, e)
			}
		}
		fdp.EnumType = keep
	}
	deps, err := depsOf(fdp)
	if err != nil {
		panic(err)
	}
	img := imageOf(deps, []string{fdp.GetPackage()})
	img.File = append(img.File, fdp)
	return img
}

func run(r *vk.Runner) {
	if fc := os.Getenv("C15_FIELDCOV"); fc != "" {
		seen := map[string]bool{}
		var walk func(md protoreflect.MessageDescriptor)
		walk = func(md protoreflect.MessageDescriptor) {
			if seen[string(md.FullName())] {
				return
			}
			seen[string(md.FullName())] = true
			f, _ := os.OpenFile(fc, os.O_APPEND|os.O_CREATE|os.O_WRONLY, 0644)
			for i := 0; i < md.Fields().Len(); i++ {
				fmt.Fprintln(f, "ALL:"+string(md.Fields().Get(i).FullName()))
			}
			f.Close()
			for i := 0; i < md.Fields().Len(); i++ {
				fd := md.Fields().Get(i)
				if fd.IsMap() {
					fd = fd.MapValue()
				}
				if fd.Message() != nil {
					walk(fd.Message())
				}
			}
		}
		walk((&schema_j5pb.RootSchema{}).ProtoReflect().Descriptor())
	}
	// (a) j5s programs
	var cases []*gj5s.Case
	cases = append(cases, gj5s.AllContractCases(!r.Quick())...)
	cases = append(cases, gj5s.AnnotationCases()...)
	cases = append(cases, gj5s.RuleCases()...)
	cases = append(cases, gj5s.ShapeCases()...)
	cases = append(cases, gj5s.PipelineCases()...)
	cases = append(cases, gj5s.OddNameCases()...)
	for _, c := range gj5s.EntityCases(!r.Quick()) {
		if !strings.HasPrefix(c.ID, "entity:5.") {
			cases = append(cases, c)
		}
	}
	seenCase := map[string]bool{}
	for _, c := range cases {
		c := c
		if r.Stopped() {
			return
		}
		if seenCase[c.Family+"\x00"+c.ID] {
			continue // the contract families already hold a subset of the entity cases
		}
		seenCase[c.Family+"\x00"+c.ID] = true
		r.Family("j5s:" + c.Family)
		b := c.P.Bundle()
		listings := [][]string{b.Packages}
		if len(b.Packages) > 1 {
			for _, p := range b.Packages {
				listings = append(listings, []string{p})
			}
		}
		for li, listing := range listings {
			listing := listing
			r.Do(fmt.Sprintf("%s#listing%d", c.ID, li), func(t *vk.T) {
				src := ""
				for _, f := range c.P.Files {
					src += "// " + f.Path() + "\n" + b.Files[f.Path()] + "\n"
				}
				src += fmt.Sprintf("// image packages: %v\n", listing)
				ps, err := b.NewPackageSet()
				if err != nil {
					panic(err)
				}
				var files []protoreflect.FileDescriptor
				for _, pkg := range b.Packages {
					out, err := ps.CompilePackage(context.Background(), pkg)
					t.Step()
					if err != nil {
						t.Class("does-not-compile")
						return
					}
					for _, f := range out {
						files = append(files, f)
					}
				}
				checkSet(t, imageOf(files, listing), "j5s:"+c.Family, "j5s|"+c.Coord, src, true)
				t.Sample(src)
			})
		}
	}
	// (b) raw descriptor sets
	none := annot{"none", func(*descriptorpb.FieldOptions) {}}
	all := append([]annot{none}, j5Annots()...)
	all = append(all, validateAnnots()...)
	all = append(all, listAnnots()...)
	r.Family("raw:matrix")
	for _, ft := range fieldTypes {
		for _, lb := range labels {
			for _, a := range all {
				ft, lb, a := ft, lb, a
				if r.Stopped() {
					return
				}
				r.Do(fmt.Sprintf("m:%s:%s:%s", ft.name, lb, a.name), func(t *vk.T) {
					fdp := matrixCase(ft, lb, []annot{a})
					src := prototext.MarshalOptions{Multiline: true}.Format(fdp.MessageType[len(fdp.MessageType)-1])
					checkSet(t, rawImage(fdp), "raw:matrix|annotation="+a.name, fmt.Sprintf("raw|type=%s|label=%s|annotation=%s", ft.name, lb, a.name), src, false)
				})
			}
		}
	}
	layoutCases(r)
	r.Family("raw:structures")
	st := structures()
	var names []string
	for k := range st {
		names = append(names, k)
	}
	sort.Strings(names)
	for _, name := range names {
		name, fdp := name, st[name]
		r.Do("s:"+name, func(t *vk.T) {
			src := prototext.MarshalOptions{Multiline: true}.Format(fdp)
			checkSet(t, rawImage(fdp), "raw:structures|"+name, "raw|structure="+name, src, false)
			t.Sample("structure " + name)
		})
	}
}
