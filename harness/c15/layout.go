package main

import (
	"fmt"

	"github.com/pentops/j5/gen/j5/source/v1/source_j5pb"
	"github.com/pentops/j5/internal/zzverif/vk"
	"google.golang.org/protobuf/encoding/prototext"
	"google.golang.org/protobuf/proto"
	"google.golang.org/protobuf/types/descriptorpb"
)

// Package layouts: prefix-related package names, sub-packages of listed and of
// indirect packages, cross-package object / enum / oneof references.

type edge struct {
	name           string
	fromFile       string // file path of the referencing message
	fromMsg        string
	field          string
	typeName       string
	enum           bool
}

var layoutEdges = []edge{
	{"order-money", "shop/v1/a.proto", "Order", "price", ".shop.v10.Money", false},
	{"order-currency", "shop/v1/a.proto", "Order", "cur", ".shop.v10.Currency", true},
	{"order-base", "shop/v1/a.proto", "Order", "base", ".dep.v1.Base", false},
	{"order-note", "shop/v1/a.proto", "Order", "note", ".dep.v1.topic.Note", false},
	{"order-pick", "shop/v1/a.proto", "Order", "pick", ".dep.v1.service.Pick", false},
	{"order-kind", "shop/v1/a.proto", "Order", "kind", ".dep.v1.service.Kind", true},
	{"base-note", "dep/v1/base.proto", "Base", "n", ".dep.v1.topic.Note", false},
	{"note-pick", "dep/v1/topic/note.proto", "Note", "pick", ".dep.v1.service.Pick", false},
	{"req-order", "shop/v1/service/req.proto", "Req", "order", ".shop.v1.Order", false},
	{"money-localpick", "shop/v10/m.proto", "Money", "choice", ".shop.v1.Choice", false},
}

func layoutFiles(on map[string]bool) []*descriptorpb.FileDescriptorProto {
	stringT := ftype{"string", descriptorpb.FieldDescriptorProto_TYPE_STRING, ""}
	mk := func(path, pkg string) *descriptorpb.FileDescriptorProto {
		return &descriptorpb.FileDescriptorProto{Name: str(path), Package: str(pkg), Syntax: str("proto3")}
	}
	msg := func(name string) *descriptorpb.DescriptorProto {
		return &descriptorpb.DescriptorProto{Name: str(name), Field: []*descriptorpb.FieldDescriptorProto{fld("text", 1, stringT)}}
	}
	wrapper := func(name string) *descriptorpb.DescriptorProto {
		a := fld("a", 1, ftype{"m", descriptorpb.FieldDescriptorProto_TYPE_MESSAGE, "A"})
		a.OneofIndex = proto.Int32(0)
		b := fld("b", 2, ftype{"m", descriptorpb.FieldDescriptorProto_TYPE_MESSAGE, "B"})
		b.OneofIndex = proto.Int32(0)
		return &descriptorpb.DescriptorProto{Name: str(name), OneofDecl: []*descriptorpb.OneofDescriptorProto{{Name: str("type")}},
			Field:      []*descriptorpb.FieldDescriptorProto{a, b},
			NestedType: []*descriptorpb.DescriptorProto{msg("A"), {Name: str("B")}}}
	}
	enum := func(name, prefix string) *descriptorpb.EnumDescriptorProto {
		return &descriptorpb.EnumDescriptorProto{Name: str(name), Value: []*descriptorpb.EnumValueDescriptorProto{
			{Name: str(prefix + "_UNSPECIFIED"), Number: proto.Int32(0)}, {Name: str(prefix + "_ONE"), Number: proto.Int32(1)}}}
	}
	shop := mk("shop/v1/a.proto", "shop.v1")
	shop.MessageType = []*descriptorpb.DescriptorProto{msg("Order"), msg("Local"), wrapper("Choice")}
	shop10 := mk("shop/v10/m.proto", "shop.v10")
	shop10.MessageType = []*descriptorpb.DescriptorProto{msg("Money")}
	shop10.EnumType = []*descriptorpb.EnumDescriptorProto{enum("Currency", "CURRENCY")}
	base := mk("dep/v1/base.proto", "dep.v1")
	base.MessageType = []*descriptorpb.DescriptorProto{msg("Base")}
	note := mk("dep/v1/topic/note.proto", "dep.v1.topic")
	note.MessageType = []*descriptorpb.DescriptorProto{msg("Note")}
	pick := mk("dep/v1/service/pick.proto", "dep.v1.service")
	pick.MessageType = []*descriptorpb.DescriptorProto{wrapper("Pick")}
	pick.EnumType = []*descriptorpb.EnumDescriptorProto{enum("Kind", "KIND")}
	req := mk("shop/v1/service/req.proto", "shop.v1.service")
	req.MessageType = []*descriptorpb.DescriptorProto{msg("Req")}
	files := []*descriptorpb.FileDescriptorProto{pick, note, base, shop, shop10, req}
	byPath := map[string]*descriptorpb.FileDescriptorProto{}
	for _, f := range files {
		byPath[f.GetName()] = f
	}
	home := map[string]string{".shop.v10.": "shop/v10/m.proto", ".dep.v1.topic.": "dep/v1/topic/note.proto", ".dep.v1.service.": "dep/v1/service/pick.proto", ".dep.v1.B": "dep/v1/base.proto", ".shop.v1.": "shop/v1/a.proto"}
	for _, e := range layoutEdges {
		if !on[e.name] {
			continue
		}
		f := byPath[e.fromFile]
		var m *descriptorpb.DescriptorProto
		for _, x := range f.MessageType {
			if x.GetName() == e.fromMsg {
				m = x
			}
		}
		t := descriptorpb.FieldDescriptorProto_TYPE_MESSAGE
		if e.enum {
			t = descriptorpb.FieldDescriptorProto_TYPE_ENUM
		}
		m.Field = append(m.Field, fld(e.field, int32(len(m.Field)+1), ftype{"ref", t, e.typeName}))
		dep := ""
		best := 0
		for prefix, path := range home {
			if len(e.typeName) >= len(prefix) && e.typeName[:len(prefix)] == prefix && len(prefix) > best {
				dep, best = path, len(prefix)
			}
		}
		has := false
		for _, d := range f.Dependency {
			if d == dep {
				has = true
			}
		}
		if !has && dep != f.GetName() {
			f.Dependency = append(f.Dependency, dep)
		}
	}
	// dependency order: a file after its dependencies (money-localpick + order-money would be a cycle)
	return files
}

func layoutCases(r *vk.Runner) {
	r.Family("raw:layout")
	roots := []string{"shop.v1", "shop.v10", "dep.v1"}
	var listings [][]string
	var rec func(cur []string)
	rec = func(cur []string) {
		if len(cur) > 0 {
			listings = append(listings, append([]string{}, cur...))
		}
		for _, p := range roots {
			used := false
			for _, c := range cur {
				if c == p {
					used = true
				}
			}
			if !used {
				rec(append(cur, p))
			}
		}
	}
	rec(nil)
	var sets []map[string]bool
	var setNames []string
	all := map[string]bool{}
	for _, e := range layoutEdges {
		if e.name != "money-localpick" { // shop.v10 -> shop.v1 would close an import cycle with order-money
			all[e.name] = true
		}
		sets = append(sets, map[string]bool{e.name: true})
		setNames = append(setNames, e.name)
	}
	sets = append(sets, all)
	setNames = append(setNames, "all")
	for si, on := range sets {
		for _, listing := range listings {
			on, listing, sn := on, listing, setNames[si]
			if r.Stopped() {
				return
			}
			r.Do(fmt.Sprintf("layout:%s:%v", sn, listing), func(t *vk.T) {
				files := layoutFiles(on)
				img := &source_j5pb.SourceImage{File: files}
				for _, p := range listing {
					img.Packages = append(img.Packages, &source_j5pb.PackageInfo{Name: p})
				}
				src := fmt.Sprintf("// image packages: %v, reference edges: %s\n", listing, sn)
				for _, f := range files {
					src += prototext.MarshalOptions{Multiline: true}.Format(f) + "\n"
				}
				checkSet(t, img, "raw:layout|edges="+sn, fmt.Sprintf("raw|layout|edges=%s|listing=%v", sn, listing), src, false)
			})
		}
	}
}
