// C01: JSON codec round trip: decode(encode(m)) equals m.
package main

import (
	"encoding/json"
	"fmt"
	"math"
	"os"
	"strconv"
	"strings"

	"github.com/pentops/j5/internal/zzverif/gbridge"
	"github.com/pentops/j5/internal/zzverif/gj5s"
	"github.com/pentops/j5/internal/zzverif/gpb"
	"github.com/pentops/j5/internal/zzverif/vk"
	"github.com/pentops/j5/lib/j5codec"
	"github.com/pentops/j5/lib/j5reflect"
	"google.golang.org/protobuf/encoding/prototext"
	"google.golang.org/protobuf/reflect/protoreflect"
	"google.golang.org/protobuf/types/dynamicpb"
)

func main() {
	vk.Main(&vk.Check{
		ID:   "C01",
		Rule: "schemas: every (field kind x label x context) single-field message (S1) and every ordered pair of top-level fields over a 14-kind reduced alphabet (S2), built as raw descriptors; for each schema every message in the product of the per-field boundary value alphabets; a case = (schema, message); distinct by (schema id, message text); non-trivial = message with at least one populated field; thorough adds every finite float32 value (2^32 bit patterns in 4096 blocks, each value one evaluation) through the encoder's formatting and the decoder's scalar conversion",
		Assumptions: []string{
			"values outside the boundary alphabets, more than two top-level fields and nesting deeper than two levels are not covered",
			"representability is taken from the property: finite floats, years 0001-9999, defined enum numbers, valid UTF-8, well-formed decimals; j5 Any carries j5_json only (plain codec), google.protobuf.Any is round-tripped through a codec built WithProtoToAny and a private resolver",
			"equality: proto.Equal after the property's normalisation (decimals numerically, empty flattened sub-message == absent)",
		},
		Bounds:         map[string]any{"kinds": len(gpb.AllKinds()), "contexts": gpb.Contexts, "pair_kinds": len(gpb.PairKinds)},
		Isolate:        true,
		QuickBudget:    900,
		ThoroughBudget: 3600,
		Run:            run,
	})
}

func hasKind(c *gpb.Case, k gpb.Kind) bool {
	for _, m := range c.Schema.Messages {
		if mk(m, k, map[*gpb.Message]bool{}) {
			return true
		}
	}
	return false
}

func mk(m *gpb.Message, k gpb.Kind, seen map[*gpb.Message]bool) bool {
	if m == nil || seen[m] {
		return false
	}
	seen[m] = true
	for _, f := range m.Fields {
		if f.Kind == k || mk(f.Msg, k, seen) {
			return true
		}
	}
	return false
}

func run(r *vk.Runner) {
	defer func() {
		if !r.Quick() || os.Getenv("C01_FLOAT32_ALL") != "" {
			float32AllValues(r)
		}
	}()
	cases := gpb.SingleFieldCases()
	cases = append(cases, gpb.PairCases()...)
	gj5s.Silence()
	if r.Quick() {
		cases = append(cases, gbridge.Cases(gbridge.Programs())...)
		cases = append(cases, gpb.DeepQuickCases()...)
	} else {
		cases = append(cases, gbridge.Cases(gbridge.ThoroughPrograms())...)
		cases = append(cases, gpb.DeepCases()...)
	}
	for _, c := range cases {
		if r.Stopped() {
			return
		}
		if err := c.Schema.Build(); err != nil {
			panic(fmt.Sprintf("harness: schema %s does not build: %v", c.ID, err))
		}
		r.Family("roundtrip:" + familyOf(c))
		var codec *j5codec.Codec
		newCodec := func() *j5codec.Codec {
			if hasKind(c, gpb.KPbAny) {
				return j5codec.NewCodec(j5codec.WithResolver(gpb.Resolver{S: c.Schema}), j5codec.WithProtoToAny())
			}
			return j5codec.NewCodec(j5codec.WithResolver(gpb.Resolver{S: c.Schema}))
		}
		for i, mv := range gpb.MsgValues(c.Schema.Root) {
			c, mv := c, mv
			if !r.Mine() {
				r.SkipCase()
				continue
			}
			if codec == nil {
				codec = newCodec()
			}
			r.Do(fmt.Sprintf("%s#%d", c.ID, i), func(t *vk.T) {
				t.Coord(c.Coord)
				msg := c.Schema.NewMessage(mv)
				txt := prototext.MarshalOptions{}.Format(msg)
				if len(mv.Fields) > 0 {
					t.Nontrivial()
				}
				t.Key(c.ID + "\x00" + txt)
				out, err := codec.ProtoToJSON(msg)
				t.Step()
				if err != nil {
					t.Violation("encode-fails|kind="+kindOf(c)+"|"+vk.ErrTail(err), fmt.Sprintf("ProtoToJSON fails on a representable message: %v\nschema %s\nmessage: %s", err, c.ID, txt), txt, nil, err.Error())
					return
				}
				back := dynamicpb.NewMessage(msg.Descriptor())
				err = codec.JSONToProto(out, back)
				t.Step()
				if err != nil {
					t.Violation("decode-of-own-output-fails|kind="+kindOf(c)+"|"+vk.ErrTail(err), fmt.Sprintf("JSONToProto rejects the codec's own output: %v\nschema %s\nmessage: %s\njson: %s", err, c.ID, txt, out), txt, nil, string(out))
					return
				}
				if !gpb.EqualNormalized(msg, back, c.Schema.Root, c.Schema) {
					btxt := prototext.MarshalOptions{}.Format(back)
					t.Violation("roundtrip-differs|kind="+kindOf(c)+"|label="+labelOf(c), fmt.Sprintf("decode(encode(m)) != m\nschema %s\nmessage: %s\njson: %s\ndecoded: %s", c.ID, txt, out, btxt), txt, txt, btxt)
					return
				}
				if i%7 == 3 {
					t.Sample(map[string]string{"schema": c.ID, "message": txt, "json": string(out)})
				}
			})
		}
	}
}

// float32AllValues (thorough): every one of the 2^32 float32 bit patterns that is a finite number is
// written the way the encoder writes it and read back through the reflection layer's scalar setter (the
// decoder's own conversion); blocks of 2^20 patterns are one case. The full codec costs ~150 us per
// message, so it is run on one value in 4096 only, where it must agree with the fast path (text and
// decoded bits): that keeps the fast path bound to the implementation.
func float32AllValues(r *vk.Runner) {
	f := gpb.F("f_val", 1, gpb.KFloat, gpb.Single)
	root := &gpb.Message{Name: "T", Fields: []*gpb.Field{f}}
	s := &gpb.Schema{Messages: []*gpb.Message{root}, Root: root}
	if err := s.Build(); err != nil {
		panic(err)
	}
	md := s.Desc(root)
	fd := md.Fields().ByName("f_val")
	r.Family("float32-all-values")
	const block = 1 << 20
	var codec *j5codec.Codec
	for b := uint64(0); b < (1<<32)/block; b++ {
		b := b
		if !r.Mine() {
			r.SkipCase()
			continue
		}
		if codec == nil {
			codec = j5codec.NewCodec(j5codec.WithResolver(gpb.Resolver{S: s}))
		}
		r.Do(fmt.Sprintf("float32-block:%d", b), func(t *vk.T) {
			t.Coord("kind=float|label=single|context=all-values")
			t.Nontrivial()
			n := int64(0)
			msg := dynamicpb.NewMessage(md)
			rootSet, err := j5reflect.New().NewRoot(msg)
			if err != nil {
				panic(err)
			}
			prop, err := rootSet.GetProperty("fVal")
			if err != nil {
				panic(err)
			}
			field, err := prop.CreateField()
			if err != nil {
				panic(err)
			}
			scalar, ok := field.AsScalar()
			if !ok {
				panic("fVal is not a scalar")
			}
			buf := make([]byte, 0, 32)
			for i := b * block; i < (b+1)*block; i++ {
				v := math.Float32frombits(uint32(i))
				if v != v || math.IsInf(float64(v), 0) {
					continue
				}
				n++
				buf = strconv.AppendFloat(buf[:0], float64(v), 'g', -1, 32) // encoder.addFloat
				if err := scalar.SetGoValue(json.Number(buf)); err != nil {
					t.Violation("decode-of-own-output-fails|kind=float|"+vk.ErrTail(err), fmt.Sprintf("the scalar setter rejects %s (float32 bits %d): %v", buf, i, err), i, nil, string(buf))
					return
				}
				got := float32(msg.Get(fd).Float())
				if math.Float32bits(got) != uint32(i) && !(v == 0 && got == 0) {
					t.Violation("roundtrip-differs|kind=float|label=single", fmt.Sprintf("float32 bits %d (%v) is written as %s and read back as bits %d (%v)", i, v, buf, math.Float32bits(got), got), i, v, got)
					return
				}
				if i%4096 == 1365 { // conformance of the fast path with the codec
					m2 := dynamicpb.NewMessage(md)
					m2.Set(fd, protoreflect.ValueOfFloat32(v))
					out, err := codec.ProtoToJSON(m2)
					if err != nil {
						t.Violation("encode-fails|kind=float|"+vk.ErrTail(err), fmt.Sprintf("ProtoToJSON fails on float32 bits %d (%v): %v", i, v, err), i, nil, err.Error())
						return
					}
					if want := `{"fVal":` + string(buf) + `}`; string(out) != want && v != 0 {
						panic(fmt.Sprintf("harness: the codec writes %s for float32 bits %d, the fast path assumes %s", out, i, want))
					}
					back := dynamicpb.NewMessage(md)
					if err := codec.JSONToProto(out, back); err != nil {
						t.Violation("decode-of-own-output-fails|kind=float|"+vk.ErrTail(err), fmt.Sprintf("JSONToProto rejects %s: %v", out, err), i, nil, string(out))
						return
					}
					if g2 := float32(back.Get(fd).Float()); math.Float32bits(g2) != math.Float32bits(got) {
						panic(fmt.Sprintf("harness: the codec decodes %s to bits %d, the scalar setter to bits %d", out, math.Float32bits(g2), math.Float32bits(got)))
					}
				}
			}
			t.Count(n, 0, 2*n) // evaluations and transitions are counted, the values are not kept as keys
			if b == 1000 {
				t.Sample(fmt.Sprintf("block %d: %d finite values", b, n))
			}
		})
	}
}

func familyOf(c *gpb.Case) string {
	if strings.HasPrefix(c.ID, "j5s/") {
		return "j5s-compiled"
	}
	if strings.HasPrefix(c.ID, "deep/") {
		return "deep"
	}
	if c.Under == nil {
		return "pairs"
	}
	return "single-field"
}

func kindOf(c *gpb.Case) string {
	if strings.HasPrefix(c.ID, "j5s/") {
		if c.Under == nil {
			return "j5s:empty"
		}
		return "j5s:" + c.Under.Kind.String()
	}
	if c.Under == nil {
		return "pair"
	}
	return c.Under.Kind.String()
}

func labelOf(c *gpb.Case) string {
	if c.Under == nil {
		return "-"
	}
	return c.Under.Label.String()
}
