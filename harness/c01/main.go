// C01: JSON codec round trip: decode(encode(m)) equals m.
package main

import (
	"strings"
	"fmt"

	"github.com/pentops/j5/internal/zzverif/gbridge"
	"github.com/pentops/j5/internal/zzverif/gj5s"
	"github.com/pentops/j5/internal/zzverif/gpb"
	"github.com/pentops/j5/internal/zzverif/vk"
	"github.com/pentops/j5/lib/j5codec"
	"google.golang.org/protobuf/encoding/prototext"
	"google.golang.org/protobuf/types/dynamicpb"
)

func main() {
	vk.Main(&vk.Check{
		ID:   "C01",
		Rule: "schemas: every (field kind x label x context) single-field message (S1) and every ordered pair of top-level fields over a 14-kind reduced alphabet (S2), built as raw descriptors; for each schema every message in the product of the per-field boundary value alphabets; a case = (schema, message); distinct by (schema id, message text); non-trivial = message with at least one populated field",
		Assumptions: []string{
			"values outside the boundary alphabets, more than two top-level fields and nesting deeper than two levels are not covered",
			"representability is taken from the property: finite floats, years 0001-9999, defined enum numbers, valid UTF-8, well-formed decimals; j5 Any carries j5_json only (plain codec), google.protobuf.Any is round-tripped through a codec built WithProtoToAny and a private resolver",
			"equality: proto.Equal after the property's normalisation (decimals numerically, empty flattened sub-message == absent)",
		},
		Bounds:         map[string]any{"kinds": len(gpb.AllKinds()), "contexts": gpb.Contexts, "pair_kinds": len(gpb.PairKinds)},
		Isolate:        true,
		QuickBudget:    900,
		ThoroughBudget: 3600,
		Run:            run,
	})
}

func hasKind(c *gpb.Case, k gpb.Kind) bool {
	for _, m := range c.Schema.Messages {
		if mk(m, k, map[*gpb.Message]bool{}) {
			return true
		}
	}
	return false
}

func mk(m *gpb.Message, k gpb.Kind, seen map[*gpb.Message]bool) bool {
	if m == nil || seen[m] {
		return false
	}
	seen[m] = true
	for _, f := range m.Fields {
		if f.Kind == k || mk(f.Msg, k, seen) {
			return true
		}
	}
	return false
}

func run(r *vk.Runner) {
	cases := gpb.SingleFieldCases()
	cases = append(cases, gpb.PairCases()...)
	gj5s.Silence()
	if r.Quick() {
		cases = append(cases, gbridge.Cases(gbridge.Programs())...)
		cases = append(cases, gpb.DeepQuickCases()...)
	} else {
		cases = append(cases, gbridge.Cases(gbridge.ThoroughPrograms())...)
		cases = append(cases, gpb.DeepCases()...)
	}
	for _, c := range cases {
		if r.Stopped() {
			return
		}
		if err := c.Schema.Build(); err != nil {
			panic(fmt.Sprintf("harness: schema %s does not build: %v", c.ID, err))
		}
		r.Family("roundtrip:" + familyOf(c))
		var codec *j5codec.Codec
		newCodec := func() *j5codec.Codec {
			if hasKind(c, gpb.KPbAny) {
				return j5codec.NewCodec(j5codec.WithResolver(gpb.Resolver{S: c.Schema}), j5codec.WithProtoToAny())
			}
			return j5codec.NewCodec(j5codec.WithResolver(gpb.Resolver{S: c.Schema}))
		}
		for i, mv := range gpb.MsgValues(c.Schema.Root) {
			c, mv := c, mv
			if !r.Mine() {
				r.SkipCase()
				continue
			}
			if codec == nil {
				codec = newCodec()
			}
			r.Do(fmt.Sprintf("%s#%d", c.ID, i), func(t *vk.T) {
				t.Coord(c.Coord)
				msg := c.Schema.NewMessage(mv)
				txt := prototext.MarshalOptions{}.Format(msg)
				if len(mv.Fields) > 0 {
					t.Nontrivial()
				}
				t.Key(c.ID + "\x00" + txt)
				out, err := codec.ProtoToJSON(msg)
				t.Step()
				if err != nil {
					t.Violation("encode-fails|kind="+kindOf(c)+"|"+vk.ErrTail(err), fmt.Sprintf("ProtoToJSON fails on a representable message: %v\nschema %s\nmessage: %s", err, c.ID, txt), txt, nil, err.Error())
					return
				}
				back := dynamicpb.NewMessage(msg.Descriptor())
				err = codec.JSONToProto(out, back)
				t.Step()
				if err != nil {
					t.Violation("decode-of-own-output-fails|kind="+kindOf(c)+"|"+vk.ErrTail(err), fmt.Sprintf("JSONToProto rejects the codec's own output: %v\nschema %s\nmessage: %s\njson: %s", err, c.ID, txt, out), txt, nil, string(out))
					return
				}
				if !gpb.EqualNormalized(msg, back, c.Schema.Root, c.Schema) {
					btxt := prototext.MarshalOptions{}.Format(back)
					t.Violation("roundtrip-differs|kind="+kindOf(c)+"|label="+labelOf(c), fmt.Sprintf("decode(encode(m)) != m\nschema %s\nmessage: %s\njson: %s\ndecoded: %s", c.ID, txt, out, btxt), txt, txt, btxt)
					return
				}
				if i%7 == 3 {
					t.Sample(map[string]string{"schema": c.ID, "message": txt, "json": string(out)})
				}
			})
		}
	}
}

func familyOf(c *gpb.Case) string {
	if strings.HasPrefix(c.ID, "j5s/") {
		return "j5s-compiled"
	}
	if strings.HasPrefix(c.ID, "deep/") {
		return "deep"
	}
	if c.Under == nil {
		return "pairs"
	}
	return "single-field"
}

func kindOf(c *gpb.Case) string {
	if strings.HasPrefix(c.ID, "j5s/") {
		if c.Under == nil {
			return "j5s:empty"
		}
		return "j5s:" + c.Under.Kind.String()
	}
	if c.Under == nil {
		return "pair"
	}
	return c.Under.Kind.String()
}

func labelOf(c *gpb.Case) string {
	if c.Under == nil {
		return "-"
	}
	return c.Under.Label.String()
}
